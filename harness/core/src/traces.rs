//! Stack-trace AST, generators, printers and the text model. Every printed
//! line carries its generator-known kind, so the model never classifies text.

use crate::ast::MapAst;
use crate::ast::Item;
use crate::model::{MFrame, Model};
use crate::rng::Rng;

#[derive(Clone, Debug, PartialEq, Eq)]
pub struct TThrowable {
    pub class: String,
    pub message: Option<String>,
}

impl TThrowable {
    pub fn print(&self) -> String {
        match &self.message {
            Some(m) => format!("{}: {}", self.class, m),
            None => self.class.clone(),
        }
    }
}

#[derive(Clone, Debug, PartialEq, Eq)]
pub struct TFrame {
    pub class: String,
    pub method: String,
    pub file: Option<String>,
    pub line: u64,
    /// parameter string of a `StackFrame::with_parameters` frame (never printed)
    pub params: Option<String>,
}

impl TFrame {
    pub fn print(&self) -> String {
        format!("at {}.{}({}:{})", self.class, self.method, self.file.as_deref().unwrap_or("<unknown>"), self.line)
    }
}

#[derive(Clone, Debug, PartialEq, Eq)]
pub struct TTrace {
    pub exception: Option<TThrowable>,
    pub frames: Vec<TFrame>,
    pub cause: Option<Box<TTrace>>,
}

impl TTrace {
    pub fn depth(&self) -> usize {
        match &self.cause {
            Some(c) => 1 + c.depth(),
            None => 0,
        }
    }
    /// The documented printed form: exception line, four-space indented
    /// frames, "Caused by: " + cause.
    pub fn print(&self) -> String {
        let mut s = String::new();
        if let Some(e) = &self.exception {
            s.push_str(&e.print());
            s.push('\n');
        }
        for f in &self.frames {
            s.push_str("    ");
            s.push_str(&f.print());
            s.push('\n');
        }
        if let Some(c) = &self.cause {
            s.push_str("Caused by: ");
            s.push_str(&c.print());
        }
        s
    }
}

// ------------------------------------------------------------ name universe

#[derive(Clone, Debug, Default)]
pub struct Names {
    pub classes: Vec<String>,
    pub methods: Vec<String>,
    pub args: Vec<String>,
    pub files: Vec<String>,
    pub lines: Vec<u64>,
    /// coherent (class, method, line) triples that resolve in the mapping
    pub hot: Vec<(String, String, u64)>,
}

pub const PLATFORM_CLASSES: &[&str] = &[
    "java.lang.RuntimeException",
    "java.lang.IllegalStateException",
    "java.io.IOException",
    "kotlin.KotlinNullPointerException",
    "android.os.NetworkOnMainThreadException",
    "java.lang.ClassNotFoundException",
    "java.lang.NoClassDefFoundError",
    "java.lang.ExceptionInInitializerError",
];

/// File names derived from a class name: simple name and outer simple name with the
/// usual extensions, and without one.
pub fn class_files(class: &str) -> Vec<String> {
    let simple = class.rsplit('.').next().unwrap_or(class);
    let outer = simple.split('$').next().unwrap_or(simple);
    let mut v = vec![];
    for stem in [simple, outer] {
        if stem.is_empty() || stem.contains(':') || stem.contains('(') || stem.contains(')') || stem.contains('\0') {
            continue;
        }
        for ext in [".java", ".kt", ""] {
            let f = format!("{stem}{ext}");
            if !v.contains(&f) {
                v.push(f);
            }
        }
    }
    v
}

/// The complete finite name/line universe of a file (design §3.3).
pub fn names_of(ast: &MapAst) -> Names {
    let mut n = Names::default();
    let mut push = |v: &mut Vec<String>, s: &str| {
        if !v.iter().any(|x| x == s) {
            v.push(s.to_string());
        }
    };
    let mut lines: Vec<u128> = (0..=66).collect();
    let mut cur_class: Option<&str> = None;
    let mut hot: Vec<(String, String, u64)> = vec![];
    for it in &ast.items {
        match it {
            Item::Class { obf, .. } => {
                push(&mut n.classes, obf);
                cur_class = Some(obf.as_str());
            }
            Item::Method(m) => {
                if let Some(c) = cur_class {
                    if hot.len() < 200 {
                        let l = match m.usable() {
                            Some((s, e)) if s <= e => s + (e - s) / 2,
                            _ => 7,
                        };
                        if l <= u64::MAX as u128 {
                            hot.push((c.to_string(), m.obf.clone(), l as u64));
                        }
                    }
                }
                push(&mut n.methods, &m.obf);
                push(&mut n.args, &m.args);
                for v in [m.start, m.end].into_iter().flatten() {
                    lines.push(v.saturating_sub(1));
                    lines.push(v);
                    lines.push(v + 1);
                }
                if let (Some(s), Some(e)) = (m.start, m.end) {
                    if e > s + 1 {
                        lines.push(s + (e - s) / 2);
                    }
                }
            }
            _ => {}
        }
    }
    // near misses and unknowns for classes
    let base: Vec<String> = n.classes.clone();
    for c in base.iter().take(6) {
        if c.chars().count() > 1 {
            let mut p = c.clone();
            p.pop();
            push(&mut n.classes, &p);
        }
        push(&mut n.classes, &format!("{c}a"));
        push(&mut n.classes, &format!("{c}\0"));
        let flipped: String =
            c.chars().map(|ch| if ch.is_ascii_lowercase() { ch.to_ascii_uppercase() } else { ch.to_ascii_lowercase() }).collect();
        push(&mut n.classes, &flipped);
        // last char +-1
        let mut chars: Vec<char> = c.chars().collect();
        if let Some(l) = chars.last_mut() {
            if let Some(nc) = char::from_u32(*l as u32 + 1) {
                *l = nc;
            }
        }
        push(&mut n.classes, &chars.iter().collect::<String>());
    }
    // structured near misses: qualifiers, descriptor and path spellings, padding
    for c in base.iter().take(4) {
        for v in [
            format!("x/{c}"),
            format!("app//{c}"),
            format!("{c}/x"),
            c.replace('.', "/"),
            format!("L{c};"),
            format!(" {c}"),
            format!("{c} "),
            format!("{c}."),
            format!(".{c}"),
            format!("{c}$1"),
            format!("[{c}"),
        ] {
            if v != *c {
                push(&mut n.classes, &v);
            }
        }
    }
    // names from the other side of the mapping: a query for an ORIGINAL class or method name
    // selects nothing (unless the item is kept), and an original line number is a query
    // line like any other
    let mut origs: Vec<&str> = vec![];
    let mut orig_methods: Vec<&str> = vec![];
    for it in &ast.items {
        match it {
            Item::Class { orig, .. } => origs.push(orig.as_str()),
            Item::Method(m) => {
                orig_methods.push(m.orig.as_str());
                if let Some(c) = &m.orig_class {
                    origs.push(c.as_str());
                }
                for v in [m.ostart, m.oend].into_iter().flatten() {
                    if lines.len() < 4000 {
                        lines.push(v);
                    }
                }
            }
            _ => {}
        }
    }
    for c in origs.into_iter().take(6) {
        push(&mut n.classes, c);
    }
    for m in orig_methods.into_iter().take(6) {
        push(&mut n.methods, m);
    }
    push(&mut n.classes, "unknown.Klass");
    push(&mut n.classes, "");
    push(&mut n.methods, "unknownMethod");
    push(&mut n.methods, "");
    push(&mut n.args, "no.such.Type");
    push(&mut n.args, "in");
    n.files = vec!["SourceFile".to_string(), "Query.java".to_string()];
    // file names a tool would synthesise from a class name (what `at a.b.c(c.java:3)` carries
    // when the debug info only has the obfuscated name)
    let orig_classes: Vec<&str> = ast.items.iter().filter_map(|i| if let Item::Class { orig, .. } = i { Some(orig.as_str()) } else { None }).collect();
    for c in base.iter().map(|s| s.as_str()).chain(orig_classes.into_iter()).take(24) {
        for f in class_files(c) {
            if !n.files.contains(&f) {
                n.files.push(f);
            }
        }
    }
    for v in [U32M - 2, U32M - 1, U32M, U32M + 1, u64::MAX as u128] {
        lines.push(v);
    }
    // lines beyond 2^32 whose low 32 bits are small (i.e. would fall into a range after truncation)
    let small: Vec<u128> = lines.iter().copied().filter(|v| *v <= 70).step_by(3).collect();
    for v in small {
        lines.push((1u128 << 32) + v);
    }
    lines.push((1u128 << 33) + 5);
    lines.push((1u128 << 40) + 12);
    lines.sort();
    lines.dedup();
    n.lines = lines.into_iter().filter(|v| *v <= u64::MAX as u128).map(|v| v as u64).collect();
    n.hot = hot;
    n
}

const U32M: u128 = u32::MAX as u128;

// --------------------------------------------------------- typed generators

pub const MESSAGES: &[&str] = &[
    "Crash!",
    "boom: with colon",
    "Caused by: nested text",
    "at x.y(F:1)",
    "a: b: c",
    "Ünïcödé message",
    "x",
    "trailing) paren",
];

pub struct TraceGen<'a> {
    pub names: &'a Names,
}

impl<'a> TraceGen<'a> {
    pub fn throwable(&self, rng: &mut Rng) -> TThrowable {
        let class = if rng.chance(1, 2) && !self.names.classes.is_empty() {
            let c = rng.pick(&self.names.classes).clone();
            if c.is_empty() || c.contains(' ') || c.contains('\0') || c.contains(": ") {
                "java.lang.Error".to_string()
            } else {
                c
            }
        } else {
            rng.pick(PLATFORM_CLASSES).to_string()
        };
        // class-loading errors carry a class name as their whole message
        let loading = class == "java.lang.ClassNotFoundException" || class == "java.lang.NoClassDefFoundError";
        let message = match if loading && rng.chance(3, 4) { 4 } else { rng.below(12) } {
            0..=3 => None,
            4 => {
                // a message that is exactly a class name of the universe (e.g. ClassNotFoundException)
                let c = rng.pick(&self.names.classes);
                if c.is_empty() || c.contains('\0') || c.trim() != c.as_str() {
                    Some("x".to_string())
                } else if rng.chance(1, 3) {
                    Some(c.replace('.', "/")) // the spelling NoClassDefFoundError uses
                } else {
                    Some(c.clone())
                }
            }
            _ => Some(rng.pick(MESSAGES).to_string()),
        };
        TThrowable { class, message }
    }

    /// A frame whose class/method/file are "canonical": printable and
    /// re-parsable (class non-empty, method dot-free, file colon-free).
    pub fn frame(&self, rng: &mut Rng, with_file: bool) -> TFrame {
        if !self.names.hot.is_empty() && rng.chance(3, 5) {
            let (c, m, l) = rng.pick(&self.names.hot).clone();
            let ok = |s: &str| !s.is_empty() && !s.contains('\0') && !s.contains('(') && !s.contains(' ');
            if ok(&c) && ok(&m) && !m.contains('.') {
                let file = if rng.chance(1, 4) && !class_files(&c).is_empty() {
                    Some(rng.pick(&class_files(&c)).clone())
                } else if with_file || rng.chance(2, 3) {
                    Some(rng.pick(&["SourceFile", "Main.java", "a b.kt", "<unknown>", "Ünï.kt"]).to_string())
                } else {
                    None
                };
                return TFrame { class: c, method: m, file, line: l, params: None };
            }
        }
        let class = {
            let c = if rng.chance(4, 5) { rng.pick(&self.names.classes).clone() } else { "org.unmapped.Type".to_string() };
            if c.is_empty() || c.contains('\0') || c.contains('(') || c.contains(' ') {
                "org.unmapped.Other".to_string()
            } else {
                c
            }
        };
        let method = {
            let m = rng.pick(&self.names.methods).clone();
            if m.is_empty() || m.contains('.') || m.contains('(') {
                "run".to_string()
            } else {
                m
            }
        };
        let line = *rng.pick(&self.names.lines);
        let file = if rng.chance(1, 5) && !class_files(&class).is_empty() {
            Some(rng.pick(&class_files(&class)).clone())
        } else if with_file || rng.chance(2, 3) {
            Some(rng.pick(&["SourceFile", "Main.java", "a b.kt", "<unknown>", "Ünï.kt"]).to_string())
        } else {
            None
        };
        TFrame { class, method, file, line, params: None }
    }

    /// `canonical`: every cause level has an exception and every frame a file.
    pub fn trace(&self, rng: &mut Rng, depth: usize, canonical: bool) -> TTrace {
        let nframes = match rng.below(4) {
            0 => 0,
            1 => 1,
            _ => rng.below(8),
        };
        let mut frames: Vec<TFrame> = (0..nframes).map(|_| self.frame(rng, canonical)).collect();
        let mut exception = if canonical || rng.chance(5, 6) { Some(self.throwable(rng)) } else { None };
        if exception.is_none() && frames.is_empty() {
            if rng.chance(1, 2) {
                frames.push(self.frame(rng, canonical));
            } else {
                exception = Some(self.throwable(rng));
            }
        }
        let cause = if depth > 0 {
            let mut c = self.trace(rng, depth - 1, canonical);
            if c.exception.is_none() {
                c.exception = Some(self.throwable(rng));
            }
            // `new RuntimeException(cause)`: the wrapper's message is the cause's toString()
            if rng.chance(1, 5) {
                if let (Some(e), Some(ce)) = (exception.as_mut(), c.exception.as_ref()) {
                    e.message = Some(ce.print());
                }
            }
            Some(Box::new(c))
        } else {
            None
        };
        TTrace { exception, frames, cause }
    }

    /// Top level may lack the exception (then it has at least one frame).
    pub fn trace_top(&self, rng: &mut Rng, canonical: bool) -> TTrace {
        let depth = rng.below(5);
        let mut t = self.trace(rng, depth, canonical);
        if rng.chance(1, 6) && !t.frames.is_empty() {
            t.exception = None;
        }
        t
    }
}

// ------------------------------------------------------------- text traces

#[derive(Clone, Debug, PartialEq, Eq)]
pub enum LineKind {
    /// a throwable (only meaningful on the first line)
    Throwable(TThrowable),
    CausedBy(TThrowable),
    Frame(TFrame),
    /// must pass through unchanged
    Opaque,
}

#[derive(Clone, Debug)]
pub struct TextLine {
    pub text: String,
    pub kind: LineKind,
}

pub const OPAQUE_LINES: &[&str] = &[
    "    ... 3 more",
    "\t... 12 more",
    "    at a.b.c(Native Method)",
    "    at a.b.c(Unknown Source)",
    "",
    "   ",
    "some log line with spaces: and colon",
    "    at broken frame without paren",
    "  Caused by: indented cause is not a cause",
    "Suppressed: a.b: not handled",
    "    at a.b(x:y.kt:12)",
    "    at nodot(F:1)",
    "    at a.b(F:notanumber)",
    "    at a.b(F:-1)",
    "    at a.b(F:18446744073709551616)",
    "Caused by: two words: msg",
];

/// A line that is unrecognisable under any reading of the statement when it
/// is not the first line: after trimming it does not both start with "at "
/// and end with ')', and it does not start with "Caused by: ".
pub fn is_surely_opaque_later_line(s: &str) -> bool {
    let t = s.trim();
    !(t.starts_with("at ") && t.ends_with(')')) && !s.starts_with("Caused by: ") && !s.contains('\n') && !s.contains('\r')
}

pub fn arbitrary_line(rng: &mut Rng, max: usize) -> String {
    const ALPHA: &[&str] = &[
        "a", "b", "Z", " ", "(", ")", ":", ".", "$", "é", "ü", "日", "本", "\u{1F600}", "\t", "at ", ": ", "Caused by: ", "0", "7", "-", "+",
        "<", ">", "/", ";", "[", "L", "\u{2003}", "\u{0085}", "x", "y",
    ];
    let n = rng.below(max + 1);
    let mut s = String::new();
    for _ in 0..n {
        s.push_str(*rng.pick(ALPHA));
    }
    s
}

pub struct TextGen<'a> {
    pub tg: TraceGen<'a>,
}

impl<'a> TextGen<'a> {
    fn frame_line(&self, rng: &mut Rng) -> TextLine {
        let f = self.tg.frame(rng, true);
        let indent = *rng.pick(&["    ", "\t", "  ", "", "        "]);
        let trail = *rng.pick(&["", "", "", " ", "\t"]);
        TextLine { text: format!("{indent}{}{trail}", f.print()), kind: LineKind::Frame(f) }
    }

    pub fn lines(&self, rng: &mut Rng) -> Vec<TextLine> {
        let mut v = vec![];
        // first line
        match rng.below(10) {
            0 => v.push(self.frame_line(rng)),
            1 => {
                // opaque first line: must contain a space before any ": "
                if rng.chance(1, 2) {
                    // a log excerpt cut off at the cause section: a cause is only remapped on a later line
                    let t = self.tg.throwable(rng);
                    v.push(TextLine { text: format!("Caused by: {}", t.print()), kind: LineKind::Opaque });
                } else {
                    let t = *rng.pick(&["    ... 3 more", "not a throwable: because spaces", "two words", "   ", ""]);
                    v.push(TextLine { text: t.to_string(), kind: LineKind::Opaque });
                }
            }
            _ => {
                let t = self.tg.throwable(rng);
                v.push(TextLine { text: t.print(), kind: LineKind::Throwable(t) });
            }
        }
        let depth = rng.below(4);
        for d in 0..=depth {
            let nf = rng.below(7);
            for _ in 0..nf {
                match rng.below(12) {
                    0 => {
                        let t = *rng.pick(OPAQUE_LINES);
                        v.push(TextLine { text: t.to_string(), kind: LineKind::Opaque });
                    }
                    1 => {
                        let mut t = arbitrary_line(rng, 12);
                        if !is_surely_opaque_later_line(&t) {
                            t = format!("x{t}x");
                            if !is_surely_opaque_later_line(&t) {
                                t = "fallback opaque".into();
                            }
                        }
                        v.push(TextLine { text: t, kind: LineKind::Opaque });
                    }
                    2 => {
                        // a throwable-looking line that is not first and has no prefix
                        let t = self.tg.throwable(rng);
                        v.push(TextLine { text: t.print(), kind: LineKind::Opaque });
                    }
                    3 if v.iter().any(|l| matches!(l.kind, LineKind::Frame(_))) => {
                        // the same call site as the previous frame line, spelled differently
                        let prev = v.iter().rev().find_map(|l| if let LineKind::Frame(f) = &l.kind { Some(f.clone()) } else { None }).unwrap();
                        let mut f = prev;
                        f.file = Some(rng.pick(&["Unknown Source", "Other.java", "SourceFile", "<unknown>"]).to_string());
                        let indent = *rng.pick(&["    ", "\t", "  ", ""]);
                        v.push(TextLine { text: format!("{indent}{}", f.print()), kind: LineKind::Frame(f) });
                    }
                    _ => v.push(self.frame_line(rng)),
                }
            }
            if d < depth {
                let t = self.tg.throwable(rng);
                v.push(TextLine { text: format!("Caused by: {}", t.print()), kind: LineKind::CausedBy(t) });
            }
        }
        v
    }
}

#[derive(Clone, Copy, Debug, PartialEq, Eq)]
pub enum TextTerm {
    Lf,
    CrLf,
}

pub fn join_lines(lines: &[TextLine], term: TextTerm, trailing: bool) -> String {
    let t = if term == TextTerm::Lf { "\n" } else { "\r\n" };
    let mut s = String::new();
    for (i, l) in lines.iter().enumerate() {
        s.push_str(&l.text);
        if i + 1 < lines.len() || trailing {
            s.push_str(t);
        }
    }
    s
}

pub fn print_mframe(f: &MFrame<'_>) -> String {
    format!("    at {}.{}({}:{})", f.class, f.method, f.file.unwrap_or("<unknown>"), f.line)
}

/// Expected output of text remapping (design C07, monitor M3).
/// Returns (expected text, number of rewritten lines, number of passed-through lines).
pub fn expected_text(model: &Model<'_>, lines: &[TextLine], trailing: bool) -> (String, usize, usize) {
    let mut out = String::new();
    let mut rewritten = 0;
    let mut passed = 0;
    let mut buf = vec![];
    // `str::lines` drops a trailing empty piece: an input whose last line is
    // empty and unterminated has one line fewer.
    let n = if !trailing && lines.last().map_or(false, |l| l.text.is_empty()) { lines.len() - 1 } else { lines.len() };
    for (i, l) in lines.iter().take(n).enumerate() {
        let mut done = false;
        match &l.kind {
            LineKind::Throwable(t) if i == 0 => {
                if let Some(o) = model.class(&t.class) {
                    out.push_str(&TThrowable { class: o.to_string(), message: t.message.clone() }.print());
                    out.push('\n');
                    done = true;
                }
            }
            LineKind::CausedBy(t) if i > 0 => {
                if let Some(o) = model.class(&t.class) {
                    out.push_str("Caused by: ");
                    out.push_str(&TThrowable { class: o.to_string(), message: t.message.clone() }.print());
                    out.push('\n');
                    done = true;
                }
            }
            LineKind::Frame(f) => {
                // SAFETY of lifetimes: strings live in `lines` for the call
                let file = f.file.as_deref();
                let m: &Model<'_> = model;
                // the model borrows query strings only for the duration of this call
                let file_static: Option<&str> = file;
                let fr = frames_for(m, &f.class, &f.method, f.line as u128, file_static, &mut buf);
                if !fr.is_empty() {
                    for s in fr {
                        out.push_str(&s);
                        out.push('\n');
                    }
                    done = true;
                }
            }
            _ => {}
        }
        if done {
            rewritten += 1;
        } else {
            out.push_str(&l.text);
            out.push('\n');
            passed += 1;
        }
    }
    (out, rewritten, passed)
}

fn frames_for<'m>(
    model: &Model<'m>,
    class: &str,
    method: &str,
    line: u128,
    file: Option<&str>,
    _buf: &mut Vec<String>,
) -> Vec<String> {
    // The model API ties the query-file lifetime to the AST lifetime; copy the
    // file into the output instead of borrowing it.
    let mut tmp: Vec<MFrame<'m>> = vec![];
    model.frames_by_line(class, method, line, None, &mut tmp);
    let mut with_file: Vec<MFrame<'m>> = vec![];
    // second evaluation with a marker file to learn which frames take the query file
    const MARK: &str = "\u{1}QUERYFILE\u{1}";
    model.frames_by_line(class, method, line, Some(MARK), &mut with_file);
    with_file
        .iter()
        .map(|f| {
            let fl = match f.file {
                Some(x) if x == MARK => file,
                other => other,
            };
            format!("    at {}.{}({}:{})", f.class, f.method, fl.unwrap_or("<unknown>"), f.line)
        })
        .collect()
}

/// `str::lines` as documented: split at "\n", strip one "\r" that precedes a
/// "\n"; a final unterminated piece is kept as is; no trailing empty piece.
pub fn doc_lines(s: &str) -> Vec<&str> {
    let mut v = vec![];
    let mut rest = s;
    while !rest.is_empty() {
        match rest.find('\n') {
            Some(i) => {
                let mut l = &rest[..i];
                if l.ends_with('\r') {
                    l = &l[..l.len() - 1];
                }
                v.push(l);
                rest = &rest[i + 1..];
            }
            None => {
                v.push(rest);
                rest = "";
            }
        }
    }
    v
}

pub fn normalised(s: &str) -> String {
    let mut o = String::with_capacity(s.len() + 1);
    for l in doc_lines(s) {
        o.push_str(l);
        o.push('\n');
    }
    o
}
