//! Library-independent components of the runtime-monitoring harness:
//! generators, reference models, decoders, fault injectors. Nothing in this
//! crate depends on (or shares code with) the library under test.
pub mod ast;
pub mod decoder;
pub mod desc;
pub mod model;
pub mod mutate;
pub mod refparser;
pub mod rng;
pub mod sinks;
pub mod traces;
pub mod util;

pub fn selftest(light: bool) -> Result<(), String> {
    if !light {
        rng::selftest()?;
    }
    util::selftest(light)?;
    Ok(())
}
