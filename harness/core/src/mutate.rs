//! Token mutator and raw-byte fuzz sources. Output has no AST, so it is used
//! only with differential / metamorphic / totality monitors.

use crate::rng::Rng;

const DELIMS: &[&str] = &[" -> ", "    ", "\r\n", "\n", "\r", ":", "(", ")", ".", ",", "#", "\"", " ", "$"];

pub fn tokenize(s: &[u8]) -> Vec<Vec<u8>> {
    let mut out: Vec<Vec<u8>> = vec![];
    let mut i = 0;
    let mut cur: Vec<u8> = vec![];
    'outer: while i < s.len() {
        for d in DELIMS {
            let db = d.as_bytes();
            if s[i..].starts_with(db) {
                if !cur.is_empty() {
                    out.push(std::mem::take(&mut cur));
                }
                out.push(db.to_vec());
                i += db.len();
                continue 'outer;
            }
        }
        // digit runs are tokens of their own
        if s[i].is_ascii_digit() {
            if !cur.is_empty() && !cur.last().unwrap().is_ascii_digit() {
                out.push(std::mem::take(&mut cur));
            }
        } else if !cur.is_empty() && cur.last().unwrap().is_ascii_digit() {
            out.push(std::mem::take(&mut cur));
        }
        cur.push(s[i]);
        i += 1;
    }
    if !cur.is_empty() {
        out.push(cur);
    }
    out
}

pub const BOUNDARY_NUMBERS: &[&str] = &[
    "0",
    "1",
    "2",
    "4294967293",
    "4294967294",
    "4294967295",
    "4294967296",
    "1099511627776",
    "18446744073709551614",
    "18446744073709551615",
    "18446744073709551616",
    "123456789012345678901234567890",
    "007",
    "\u{b2}",
    "1\u{bd}",
    "\u{2460}7",
    "\u{663}",
];

pub const SPLICE_LINES: &[&str] = &[
    "# {\"id\":\"sourceFile\",\"fileName\":\"Spliced.kt\"}",
    "# {\"id\":\"sourceFile\",\"fileName\":\"R8$$SyntheticClass\"}",
    "# sourceFile: Kv.kt",
    "# sourceFile",
    "# sourceFile:",
    "# {\"id\":\"sourceFile\",\"fileName\":\"\"}",
    "# {\"id\":\"sourceFile\",\"fileName\":\"unterminated",
    "# {\"id\":\"sourceFile\",\"fileName\":\"C:\\src\\",
    "# {\"id\":\"sourceFile\",\"fileName\":\"esc\\\"",
    "spliced.Klass -> a:",
    "spliced.Other -> zz:",
    "    1:5:void spliced(int):10:14 -> a",
    "    1:5:void x.Y.spliced(int):10 -> a",
    "    void spliced() -> a",
    "    int field -> a",
    "# compiler: R8",
    "",
];

/// Domain-restricted mutations keep numbers below 2^32-1 and never create
/// empty names on purpose (the caller still filters with the record stream).
pub fn mutate_tokens(src: &[u8], rng: &mut Rng, edits: usize, in_domain: bool) -> Vec<u8> {
    let mut toks = tokenize(src);
    if toks.is_empty() {
        toks.push(b"a".to_vec());
    }
    for _ in 0..edits {
        let n = toks.len();
        let i = rng.below(n);
        match rng.below(9) {
            0 => {
                toks.remove(i);
                if toks.is_empty() {
                    toks.push(b"\n".to_vec());
                }
            }
            1 => {
                let t = toks[i].clone();
                toks.insert(i, t);
            }
            2 => {
                let j = rng.below(n);
                toks.swap(i, j);
            }
            3 => {
                let j = rng.below(n);
                toks[i] = toks[j].clone();
            }
            4 => {
                // replace a number by a boundary value
                if let Some(k) = (0..n).map(|d| (i + d) % n).find(|k| toks[*k].iter().all(|b| b.is_ascii_digit())) {
                    let pool: &[&str] = if in_domain { &BOUNDARY_NUMBERS[..5] } else { BOUNDARY_NUMBERS };
                    toks[k] = rng.pick(pool).as_bytes().to_vec();
                }
            }
            5 => {
                // splice a line at a line boundary
                let pool: &[&str] = if in_domain { &SPLICE_LINES[9..] } else { SPLICE_LINES };
                let mut l = rng.pick(pool).as_bytes().to_vec();
                let hdrs: &[&str] = if in_domain { &SPLICE_LINES[..4] } else { &SPLICE_LINES[..9] };
                if rng.chance(1, 2) {
                    l = rng.pick(hdrs).as_bytes().to_vec();
                }
                l.push(b'\n');
                let k = (0..n).map(|d| (i + d) % n).find(|k| toks[*k] == b"\n" || toks[*k] == b"\r\n");
                match k {
                    Some(k) => toks.insert(k + 1, l),
                    None => toks.push(l),
                }
            }
            6 => {
                // drop a whole line
                if let Some(k) = (0..n).map(|d| (i + d) % n).find(|k| toks[*k] == b"\n") {
                    let mut j = k + 1;
                    while j < toks.len() && toks[j] != b"\n" {
                        toks.remove(j);
                    }
                }
            }
            7 => {
                toks[i] = rng.pick(DELIMS).as_bytes().to_vec();
            }
            _ => {
                if !in_domain {
                    // raw byte damage
                    let b = [0x80u8, 0xff, 0xb2, 0xb9, 0xbc, 0x00, b'\r', 0xc3, b'\\', b'"', b'\t'];
                    toks[i] = vec![*rng.pick(&b)];
                } else {
                    let t = toks[i].clone();
                    toks.insert(i, t);
                }
            }
        }
    }
    toks.concat()
}

pub fn random_bytes(rng: &mut Rng, max: usize) -> Vec<u8> {
    let n = rng.below(max + 1);
    (0..n).map(|_| rng.next_u64() as u8).collect()
}

/// Token soup over the grammar's delimiters and a few payload tokens.
pub fn token_soup(rng: &mut Rng, max_tokens: usize) -> Vec<u8> {
    const T: &[&[u8]] = &[
        b" -> ",
        b"    ",
        b"\n",
        b"\r\n",
        b"\r",
        b":",
        b"(",
        b")",
        b".",
        b",",
        b"#",
        b" ",
        b"a",
        b"b.c",
        b"void",
        b"1",
        b"0",
        b"42",
        b"4294967295",
        b"18446744073709551615",
        b"99999999999999999999999999999",
        b"# {\"id\":\"sourceFile\",\"fileName\":\"",
        b"\"}",
        b"\"",
        b"\\",
        b"\\\"",
        b"\\\n",
        b"'",
        b"{",
        b"}",
        b"\t",
        b"\xEF\xBB\xBF",
        "\u{b2}".as_bytes(),
        "1\u{bd}".as_bytes(),
        "\u{2460}".as_bytes(),
        "\u{663}".as_bytes(),
        "    \u{b2}:3:void m() -> a".as_bytes(),
        "    1\u{bd}:3:void m() -> a".as_bytes(),
        "    1:\u{663}3:void m() -> a".as_bytes(),
        "    void m():\u{2460} -> a".as_bytes(),
        "    1:2:void m():3:\u{b2} -> a".as_bytes(),
        b"\xb2",
        b"\xb9\xbc",
        b"\xff",
        b"\xc3\xa9",
        b"\xc3",
        b"x.Y.z",
        b"<init>",
        b"sourceFile",
        b"R8$$SyntheticClass",
    ];
    let n = rng.below(max_tokens + 1);
    let mut out = vec![];
    for _ in 0..n {
        out.extend_from_slice(*rng.pick(T));
    }
    out
}

pub fn to_crlf(s: &[u8]) -> Vec<u8> {
    let mut o = Vec::with_capacity(s.len() + s.len() / 20);
    for (i, b) in s.iter().enumerate() {
        if *b == b'\n' && (i == 0 || s[i - 1] != b'\r') {
            o.push(b'\r');
        }
        o.push(*b);
    }
    o
}
