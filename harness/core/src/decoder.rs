//! Independent cache decoder D, written only from the format documentation
//! (module docs of `cache/mod.rs` and the struct docs of `cache/raw.rs`):
//! 6xu32 header ("PRGC", version, 3 counts, string length), 7xu32 class
//! records, 9xu32 member records, sections starting at 8-aligned file offsets
//! with zero padding, LEB128-prefixed UTF-8 strings, u32::MAX = absent.

use crate::rng::Rng;
use crate::util::leb128_read;

pub const MAGIC: u32 = u32::from_le_bytes(*b"PRGC");
pub const HEADER_LEN: usize = 24;
pub const CLASS_LEN: usize = 28;
pub const MEMBER_LEN: usize = 36;
pub const ABSENT: u32 = u32::MAX;

#[derive(Clone, Copy, Debug, PartialEq, Eq)]
pub enum ErrKind {
    WrongEndianness,
    WrongFormat,
    WrongVersion,
    InvalidHeader,
    InvalidClasses,
    InvalidMembers,
    UnexpectedStringBytes { expected: usize, found: usize },
}

#[derive(Clone, Copy, Debug, PartialEq, Eq)]
pub struct Hdr {
    pub magic: u32,
    pub version: u32,
    pub num_classes: u32,
    pub num_members: u32,
    pub num_by_params: u32,
    pub string_bytes: u32,
}

#[derive(Clone, Copy, Debug, PartialEq, Eq)]
pub struct Layout {
    pub hdr: Hdr,
    pub classes_off: usize,
    pub members_off: usize,
    pub by_params_off: usize,
    pub strings_off: usize,
    /// length implied by the header (end of the string section)
    pub implied_len: usize,
}

pub fn rd32(b: &[u8], off: usize) -> u32 {
    u32::from_le_bytes([b[off], b[off + 1], b[off + 2], b[off + 3]])
}
pub fn wr32(b: &mut [u8], off: usize, v: u32) {
    b[off..off + 4].copy_from_slice(&v.to_le_bytes());
}

fn pad8(off: usize) -> usize {
    (8 - off % 8) % 8
}

/// Walk the documented layout over a buffer of length `len` whose first
/// bytes are `buf`. Returns the layout, or the error kind of the first
/// section that does not fit (padding belongs to the section it precedes).
/// `expect_version` is the version the reader accepts.
pub fn layout_walk(buf: &[u8], expect_version: u32) -> Result<Layout, ErrKind> {
    let len = buf.len() as u128;
    if buf.len() < HEADER_LEN {
        return Err(ErrKind::InvalidHeader);
    }
    let hdr = Hdr {
        magic: rd32(buf, 0),
        version: rd32(buf, 4),
        num_classes: rd32(buf, 8),
        num_members: rd32(buf, 12),
        num_by_params: rd32(buf, 16),
        string_bytes: rd32(buf, 20),
    };
    if hdr.magic == MAGIC.swap_bytes() {
        return Err(ErrKind::WrongEndianness);
    }
    if hdr.magic != MAGIC {
        return Err(ErrKind::WrongFormat);
    }
    if hdr.version != expect_version {
        return Err(ErrKind::WrongVersion);
    }
    let mut off = HEADER_LEN as u128;
    let step = |off: &mut u128, size: u128, err: ErrKind| -> Result<usize, ErrKind> {
        let p = pad8((*off % 8) as usize) as u128;
        if *off + p > len {
            return Err(err);
        }
        *off += p;
        let start = *off;
        if *off + size > len {
            return Err(err);
        }
        *off += size;
        Ok(start as usize)
    };
    let classes_off = step(&mut off, hdr.num_classes as u128 * CLASS_LEN as u128, ErrKind::InvalidClasses)?;
    let members_off = step(&mut off, hdr.num_members as u128 * MEMBER_LEN as u128, ErrKind::InvalidMembers)?;
    let by_params_off = step(&mut off, hdr.num_by_params as u128 * MEMBER_LEN as u128, ErrKind::InvalidMembers)?;
    // string section
    let p = pad8((off % 8) as usize) as u128;
    if off + p > len {
        return Err(ErrKind::UnexpectedStringBytes { expected: hdr.string_bytes as usize, found: 0 });
    }
    off += p;
    let strings_off = off as usize;
    let avail = (len - off) as usize;
    if avail < hdr.string_bytes as usize {
        return Err(ErrKind::UnexpectedStringBytes { expected: hdr.string_bytes as usize, found: avail });
    }
    Ok(Layout {
        hdr,
        classes_off,
        members_off,
        by_params_off,
        strings_off,
        implied_len: strings_off + hdr.string_bytes as usize,
    })
}

#[derive(Clone, Copy, Debug, PartialEq, Eq)]
pub struct DClass {
    pub obf: u32,
    pub orig: u32,
    pub file: u32,
    pub m_off: u32,
    pub m_len: u32,
    pub bp_off: u32,
    pub bp_len: u32,
}

#[derive(Clone, Copy, Debug, PartialEq, Eq)]
pub struct DMember {
    pub obf: u32,
    pub startline: u32,
    pub endline: u32,
    pub orig_class: u32,
    pub orig_file: u32,
    pub orig: u32,
    pub ostart: u32,
    pub oend: u32,
    pub params: u32,
}

pub struct Decoded<'b> {
    pub layout: Layout,
    pub classes: Vec<DClass>,
    pub members: Vec<DMember>,
    pub by_params: Vec<DMember>,
    pub strings: &'b [u8],
    pub buf: &'b [u8],
}

#[derive(Clone, Debug, PartialEq, Eq)]
pub enum StrErr {
    OutOfBounds,
    BadLeb,
    BadUtf8,
}

pub fn read_string(strings: &[u8], off: u32) -> Result<&str, StrErr> {
    let off = off as usize;
    if off > strings.len() {
        return Err(StrErr::OutOfBounds);
    }
    let (len, used) = leb128_read(&strings[off..]).ok_or(StrErr::BadLeb)?;
    let start = off + used;
    let end = start.checked_add(len as usize).ok_or(StrErr::OutOfBounds)?;
    if end > strings.len() {
        return Err(StrErr::OutOfBounds);
    }
    std::str::from_utf8(&strings[start..end]).map_err(|_| StrErr::BadUtf8)
}

fn member_at(b: &[u8], off: usize) -> DMember {
    DMember {
        obf: rd32(b, off),
        startline: rd32(b, off + 4),
        endline: rd32(b, off + 8),
        orig_class: rd32(b, off + 12),
        orig_file: rd32(b, off + 16),
        orig: rd32(b, off + 20),
        ostart: rd32(b, off + 24),
        oend: rd32(b, off + 28),
        params: rd32(b, off + 32),
    }
}

pub fn decode(buf: &[u8], expect_version: u32) -> Result<Decoded<'_>, ErrKind> {
    let layout = layout_walk(buf, expect_version)?;
    let h = layout.hdr;
    let mut classes = Vec::with_capacity(h.num_classes as usize);
    for i in 0..h.num_classes as usize {
        let o = layout.classes_off + i * CLASS_LEN;
        classes.push(DClass {
            obf: rd32(buf, o),
            orig: rd32(buf, o + 4),
            file: rd32(buf, o + 8),
            m_off: rd32(buf, o + 12),
            m_len: rd32(buf, o + 16),
            bp_off: rd32(buf, o + 20),
            bp_len: rd32(buf, o + 24),
        });
    }
    let members = (0..h.num_members as usize).map(|i| member_at(buf, layout.members_off + i * MEMBER_LEN)).collect();
    let by_params =
        (0..h.num_by_params as usize).map(|i| member_at(buf, layout.by_params_off + i * MEMBER_LEN)).collect();
    let strings = &buf[layout.strings_off..layout.strings_off + h.string_bytes as usize];
    Ok(Decoded { layout, classes, members, by_params, strings, buf })
}

/// Structural invariants of the documented layout. Returns a list of
/// human-readable violations (empty = conforming) and counts of invariant
/// evaluations per kind in `evals`.
pub fn check_invariants(d: &Decoded<'_>, evals: &mut [u64; 8]) -> Vec<String> {
    let mut v = vec![];
    let l = &d.layout;
    let s = |off: u32| read_string(d.strings, off);
    // 0: header
    evals[0] += 1;
    if l.hdr.magic != MAGIC {
        v.push("magic".into());
    }
    if d.buf.len() != l.implied_len {
        v.push(format!("file length {} != implied length {}", d.buf.len(), l.implied_len));
    }
    // 1: alignment and zero padding
    for (name, start, prev_end) in [
        ("classes", l.classes_off, HEADER_LEN),
        ("members", l.members_off, l.classes_off + l.hdr.num_classes as usize * CLASS_LEN),
        ("by_params", l.by_params_off, l.members_off + l.hdr.num_members as usize * MEMBER_LEN),
        ("strings", l.strings_off, l.by_params_off + l.hdr.num_by_params as usize * MEMBER_LEN),
    ] {
        evals[1] += 1;
        if start % 8 != 0 {
            v.push(format!("section {name} not 8-aligned at {start}"));
        }
        if start < prev_end || start - prev_end >= 8 {
            v.push(format!("section {name}: bad padding length {}", start as i64 - prev_end as i64));
        } else if d.buf[prev_end..start].iter().any(|b| *b != 0) {
            v.push(format!("section {name}: non-zero padding"));
        }
    }
    // 2: classes strictly sorted, strings valid
    let mut prev: Option<&str> = None;
    let mut m_next = 0u64;
    let mut bp_next = 0u64;
    for (i, c) in d.classes.iter().enumerate() {
        evals[2] += 1;
        let obf = match s(c.obf) {
            Ok(x) => x,
            Err(e) => {
                v.push(format!("class {i}: obfuscated name {e:?}"));
                continue;
            }
        };
        if let Err(e) = s(c.orig) {
            v.push(format!("class {i}: original name {e:?}"));
        }
        if c.file != ABSENT {
            if let Err(e) = s(c.file) {
                v.push(format!("class {i}: file name {e:?}"));
            }
        }
        if let Some(p) = prev {
            if p >= obf {
                v.push(format!("classes not strictly sorted at {i}: {p:?} >= {obf:?}"));
            }
        }
        prev = Some(obf);
        // 3: tiling
        evals[3] += 2;
        if c.m_off as u64 != m_next {
            v.push(format!("class {i} ({obf:?}): members_offset {} but previous range ended at {}", c.m_off, m_next));
        }
        m_next = c.m_off as u64 + c.m_len as u64;
        if c.bp_off as u64 != bp_next {
            v.push(format!(
                "class {i} ({obf:?}): members_by_params_offset {} but previous by-params range ended at {}",
                c.bp_off, bp_next
            ));
        }
        bp_next = c.bp_off as u64 + c.bp_len as u64;
        // 4/5: ordering within the class
        let mr = (c.m_off as usize).min(d.members.len())..((c.m_off as u64 + c.m_len as u64) as usize).min(d.members.len());
        let ms = &d.members[mr];
        for w in ms.windows(2) {
            evals[4] += 1;
            if let (Ok(a), Ok(b)) = (s(w[0].obf), s(w[1].obf)) {
                if a > b {
                    v.push(format!("class {obf:?}: members not sorted by obfuscated name: {a:?} > {b:?}"));
                }
            }
        }
        let br = (c.bp_off as usize).min(d.by_params.len())
            ..((c.bp_off as u64 + c.bp_len as u64) as usize).min(d.by_params.len());
        if (c.bp_off as u64 + c.bp_len as u64) as usize <= d.by_params.len() && c.bp_off as usize <= d.by_params.len() {
            let bs = &d.by_params[br];
            for w in bs.windows(2) {
                evals[5] += 1;
                let ka = (s(w[0].obf), s(w[0].params).unwrap_or(""));
                let kb = (s(w[1].obf), s(w[1].params).unwrap_or(""));
                if let ((Ok(a), pa), (Ok(b), pb)) = (ka, kb) {
                    if (a, pa) > (b, pb) {
                        v.push(format!("class {obf:?}: by-params not sorted by (name, params)"));
                    }
                }
            }
        }
    }
    evals[3] += 2;
    if m_next != d.members.len() as u64 {
        v.push(format!("member ranges end at {m_next} but section has {} entries", d.members.len()));
    }
    if bp_next != d.by_params.len() as u64 {
        v.push(format!("by-params ranges end at {bp_next} but section has {} entries", d.by_params.len()));
    }
    // 6: member strings
    for (sec, list) in [("members", &d.members), ("by_params", &d.by_params)] {
        for (i, m) in list.iter().enumerate() {
            evals[6] += 1;
            if let Err(e) = s(m.obf) {
                v.push(format!("{sec}[{i}]: obfuscated name {e:?}"));
            }
            if let Err(e) = s(m.orig) {
                v.push(format!("{sec}[{i}]: original name {e:?}"));
            }
            for (what, off) in [("original class", m.orig_class), ("original file", m.orig_file), ("params", m.params)] {
                if off != ABSENT {
                    if let Err(e) = s(off) {
                        v.push(format!("{sec}[{i}]: {what} {e:?}"));
                    }
                }
            }
        }
    }
    // 7: string section is exactly a sequence of length-prefixed UTF-8 strings
    let mut off = 0usize;
    while off < d.strings.len() {
        evals[7] += 1;
        match leb128_read(&d.strings[off..]) {
            Some((len, used)) => {
                let st = off + used;
                let en = st + len as usize;
                if en > d.strings.len() || std::str::from_utf8(&d.strings[st..en]).is_err() {
                    v.push(format!("string section: bad string at {off}"));
                    break;
                }
                off = en;
            }
            None => {
                v.push(format!("string section: bad length prefix at {off}"));
                break;
            }
        }
    }
    v
}

// ----------------------------------------------------------------- corrupter

#[derive(Clone, Debug)]
pub struct Field {
    pub off: usize,
    /// 0 header, 1 class, 2 member, 3 by-params member
    pub section: u8,
    /// index of the u32 within its record
    pub idx: u8,
}

pub fn field_map(l: &Layout) -> Vec<Field> {
    let mut f = vec![];
    for i in 0..6 {
        f.push(Field { off: i * 4, section: 0, idx: i as u8 });
    }
    for c in 0..l.hdr.num_classes as usize {
        for i in 0..7 {
            f.push(Field { off: l.classes_off + c * CLASS_LEN + i * 4, section: 1, idx: i as u8 });
        }
    }
    for m in 0..l.hdr.num_members as usize {
        for i in 0..9 {
            f.push(Field { off: l.members_off + m * MEMBER_LEN + i * 4, section: 2, idx: i as u8 });
        }
    }
    for m in 0..l.hdr.num_by_params as usize {
        for i in 0..9 {
            f.push(Field { off: l.by_params_off + m * MEMBER_LEN + i * 4, section: 3, idx: i as u8 });
        }
    }
    f
}

pub fn boundary_values(l: &Layout, section: u8) -> Vec<u32> {
    let count = match section {
        1 => l.hdr.num_members,
        2 | 3 => l.hdr.string_bytes,
        _ => l.hdr.num_classes,
    };
    let mut v = vec![0, 1, 2, 7, count.wrapping_sub(1), count, count.wrapping_add(1), 1 << 31, u32::MAX - 1, u32::MAX];
    v.dedup();
    v
}

/// Pairs of fields of one record whose combination the reader does arithmetic on:
/// (offset, length) of a class's two member ranges, and the four line fields of a
/// member taken two at a time. Returned as (offset of first u32, offset of second u32,
/// section of the record).
pub fn field_pairs(l: &Layout) -> Vec<(usize, usize, u8)> {
    let mut v = vec![];
    for c in 0..l.hdr.num_classes as usize {
        let o = l.classes_off + c * CLASS_LEN;
        v.push((o + 12, o + 16, 1));
        v.push((o + 20, o + 24, 1));
    }
    for (base, n, sec) in [(l.members_off, l.hdr.num_members as usize, 2u8), (l.by_params_off, l.hdr.num_by_params as usize, 3u8)] {
        for m in 0..n {
            let o = base + m * MEMBER_LEN;
            // startline 4, endline 8, original_startline 24, original_endline 28
            for (a, b) in [(4, 8), (4, 24), (8, 24), (24, 28), (4, 28), (8, 28)] {
                v.push((o + a, o + b, sec));
            }
        }
    }
    v
}

/// Values for pair corruptions: counts of every section and the extremes.
pub fn pair_values(l: &Layout) -> Vec<u32> {
    let h = l.hdr;
    let mut v = vec![0, 1, 2, h.num_members, h.num_members.wrapping_sub(1), h.num_by_params, h.num_by_params.wrapping_add(1), 1 << 31, (1 << 31) - 1, u32::MAX - 1, u32::MAX];
    v.sort_unstable();
    v.dedup();
    v
}

#[derive(Clone, Debug)]
pub struct Corruption {
    pub desc: String,
}

/// Apply one random corruption in place; returns a description.
pub fn corrupt(buf: &mut [u8], l: &Layout, rng: &mut Rng) -> Corruption {
    let fields = field_map(l);
    let kind = rng.below(100);
    if kind < 45 && !fields.is_empty() {
        let f = rng.pick(&fields).clone();
        let vals = boundary_values(l, f.section);
        let v = *rng.pick(&vals);
        wr32(buf, f.off, v);
        Corruption { desc: format!("field sec{} idx{} @{} := {}", f.section, f.idx, f.off, v) }
    } else if kind < 50 && !fields.is_empty() {
        // two related fields of one record
        let pairs = field_pairs(l);
        if pairs.is_empty() {
            return Corruption { desc: "noop".into() };
        }
        let (a, b, sec) = *rng.pick(&pairs);
        let vals = pair_values(l);
        let (va, vb) = (*rng.pick(&vals), *rng.pick(&vals));
        wr32(buf, a, va);
        wr32(buf, b, vb);
        Corruption { desc: format!("pair sec{sec} @{a}:={va} @{b}:={vb}") }
    } else if kind < 58 && !fields.is_empty() {
        // multi-edit
        let n = 2 + rng.below(4);
        let mut d = String::from("multi:");
        for _ in 0..n {
            let f = rng.pick(&fields).clone();
            let vals = boundary_values(l, f.section);
            let v = *rng.pick(&vals);
            wr32(buf, f.off, v);
            d.push_str(&format!(" @{}:={}", f.off, v));
        }
        Corruption { desc: d }
    } else if kind < 65 {
        // swap or duplicate two records of one section
        let (base, n, sz) = match rng.below(3) {
            0 => (l.classes_off, l.hdr.num_classes as usize, CLASS_LEN),
            1 => (l.members_off, l.hdr.num_members as usize, MEMBER_LEN),
            _ => (l.by_params_off, l.hdr.num_by_params as usize, MEMBER_LEN),
        };
        if n >= 2 {
            let i = rng.below(n);
            let j = rng.below(n);
            let a: Vec<u8> = buf[base + i * sz..base + (i + 1) * sz].to_vec();
            let b: Vec<u8> = buf[base + j * sz..base + (j + 1) * sz].to_vec();
            if rng.chance(1, 2) {
                buf[base + i * sz..base + (i + 1) * sz].copy_from_slice(&b);
                buf[base + j * sz..base + (j + 1) * sz].copy_from_slice(&a);
                Corruption { desc: format!("swap records {i},{j} size {sz}") }
            } else {
                buf[base + j * sz..base + (j + 1) * sz].copy_from_slice(&a);
                Corruption { desc: format!("duplicate record {i} over {j} size {sz}") }
            }
        } else {
            Corruption { desc: "noop".into() }
        }
    } else if kind < 75 {
        // bit flips anywhere after the header
        let n = 1 + rng.below(8);
        for _ in 0..n {
            if buf.len() > HEADER_LEN {
                let i = HEADER_LEN + rng.below(buf.len() - HEADER_LEN);
                buf[i] ^= 1 << rng.below(8);
            }
        }
        Corruption { desc: format!("{n} bit flips") }
    } else if kind < 90 {
        // string damage: length prefixes and UTF-8
        let sb = l.hdr.string_bytes as usize;
        if sb > 0 {
            let i = l.strings_off + rng.below(sb);
            let what = rng.below(5);
            match what {
                0 => buf[i] = 0xff,
                1 => buf[i] = 0x80,
                2 => {
                    // 10-byte LEB128 run
                    for k in 0..10 {
                        if i + k < buf.len() {
                            buf[i + k] = 0xff;
                        }
                    }
                }
                3 => buf[i] = 0xc0,
                _ => buf[i] = 0,
            }
            Corruption { desc: format!("string byte @{} kind {}", i, what) }
        } else {
            Corruption { desc: "noop".into() }
        }
    } else {
        // random body behind a valid header
        for b in buf[HEADER_LEN..].iter_mut() {
            *b = rng.next_u64() as u8;
        }
        Corruption { desc: "random body".into() }
    }
}


/// The error kinds a reader may report for a buffer that does not hold its
/// declared sections: the kind of the first section that does not fit; when
/// the buffer ends inside the padding in front of a section, that section is the
/// first one that does not fit. For the string section only `expected` (the
/// declared length) is fixed.
pub fn acceptable_errors(buf: &[u8], expect_version: u32) -> Option<Vec<ErrKind>> {
    let e = layout_walk(buf, expect_version).err()?;
    let mut v = vec![e];
    if buf.len() >= HEADER_LEN {
        let nc = rd32(buf, 8) as u128;
        let nm = rd32(buf, 12) as u128;
        let nb = rd32(buf, 16) as u128;
        let sb = rd32(buf, 20) as usize;
        let len = buf.len() as u128;
        let classes_end = HEADER_LEN as u128 + nc * CLASS_LEN as u128;
        let pad = |x: u128| (8 - x % 8) % 8;
        let members_off = classes_end + pad(classes_end);
        let members_end = members_off + nm * MEMBER_LEN as u128;
        let bp_off = members_end + pad(members_end);
        let bp_end = bp_off + nb * MEMBER_LEN as u128;
        let str_off = bp_end + pad(bp_end);
        // A buffer that ends inside the padding in front of a section holds every earlier
        // section completely: it is shorter than the section BEHIND the padding, and that
        // section's kind is the corresponding one (the kind of a complete section is not).
        let _ = (classes_end, members_off);
        if len >= bp_end && len < str_off {
            v.push(ErrKind::UnexpectedStringBytes { expected: sb, found: 0 });
        }
    }
    Some(v)
}

/// Kind equality that fixes only the declared length of the string section.
pub fn same_kind(got: &ErrKind, exp: &ErrKind) -> bool {
    match (got, exp) {
        (ErrKind::UnexpectedStringBytes { expected: a, found: f }, ErrKind::UnexpectedStringBytes { expected: b, .. }) => a == b && f < a,
        _ => got == exp,
    }
}
