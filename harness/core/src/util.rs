//! Small dependency-free utilities: aligned buffers, SHA-1/UUIDv5, LEB128,
//! JSON writing, hashing, and the panic trap.

use std::cell::RefCell;
use std::collections::BTreeMap;
use std::fmt::Write as _;
use std::panic::{self, AssertUnwindSafe};
use std::sync::Once;

// ---------------------------------------------------------------- aligned buf

/// Byte buffer whose start address is 8-aligned (backing store `Vec<u64>`).
/// The cache reader aligns sections by *address* while the writer pads by
/// *file offset*; they agree only on 8-aligned buffers.
#[derive(Clone)]
pub struct AlignedBuf {
    words: Vec<u64>,
    len: usize,
}

impl AlignedBuf {
    pub fn from_bytes(b: &[u8]) -> AlignedBuf {
        let nwords = (b.len() + 7) / 8;
        let mut words = vec![0u64; nwords.max(1)];
        // SAFETY-free copy: go through u8 view built from to_ne_bytes.
        for (i, chunk) in b.chunks(8).enumerate() {
            let mut w = [0u8; 8];
            w[..chunk.len()].copy_from_slice(chunk);
            words[i] = u64::from_ne_bytes(w);
        }
        AlignedBuf { words, len: b.len() }
    }
    pub fn as_slice(&self) -> &[u8] {
        // SAFETY: u64 slice reinterpretation as bytes; len <= words.len()*8.
        unsafe { std::slice::from_raw_parts(self.words.as_ptr() as *const u8, self.len) }
    }
    pub fn as_mut_slice(&mut self) -> &mut [u8] {
        unsafe { std::slice::from_raw_parts_mut(self.words.as_mut_ptr() as *mut u8, self.len) }
    }
    pub fn len(&self) -> usize {
        self.len
    }
    pub fn is_empty(&self) -> bool {
        self.len == 0
    }
    pub fn addr_range(&self) -> (usize, usize) {
        let p = self.words.as_ptr() as usize;
        (p, p + self.len)
    }
}

// ------------------------------------------------------------------- hashing

#[inline]
pub fn fnv1a(bytes: &[u8]) -> u64 {
    let mut h = 0xcbf2_9ce4_8422_2325u64;
    for b in bytes {
        h ^= *b as u64;
        h = h.wrapping_mul(0x0000_0100_0000_01b3);
    }
    h
}

/// Incremental 64-bit hasher for fingerprints of structured cases.
#[derive(Clone, Copy)]
pub struct Fp(pub u64);
impl Fp {
    pub fn new() -> Fp {
        Fp(0xcbf2_9ce4_8422_2325)
    }
    #[inline]
    pub fn bytes(mut self, b: &[u8]) -> Fp {
        for x in b {
            self.0 ^= *x as u64;
            self.0 = self.0.wrapping_mul(0x0000_0100_0000_01b3);
        }
        self.0 ^= 0xff;
        self.0 = self.0.wrapping_mul(0x0000_0100_0000_01b3);
        self
    }
    #[inline]
    pub fn str(self, s: &str) -> Fp {
        self.bytes(s.as_bytes())
    }
    #[inline]
    pub fn u64(mut self, v: u64) -> Fp {
        self.0 ^= v;
        self.0 = self.0.wrapping_mul(0x0000_0100_0000_01b3);
        self.0 ^= self.0 >> 29;
        self
    }
    pub fn get(self) -> u64 {
        self.0
    }
}
impl Default for Fp {
    fn default() -> Self {
        Fp::new()
    }
}

/// Bounded set of distinct 64-bit fingerprints (counts distinct cases).
/// Keeps exact membership up to `cap` entries; beyond that it stops inserting
/// and reports a lower bound (conservative).
pub struct DistinctSet {
    set: std::collections::HashSet<u64>,
    cap: usize,
    pub saturated: bool,
}
impl DistinctSet {
    pub fn new(cap: usize) -> DistinctSet {
        DistinctSet { set: Default::default(), cap, saturated: false }
    }
    #[inline]
    pub fn insert(&mut self, fp: u64) {
        if self.set.len() < self.cap {
            self.set.insert(fp);
        } else {
            self.saturated = true;
        }
    }
    pub fn len(&self) -> usize {
        self.set.len()
    }
    pub fn is_empty(&self) -> bool {
        self.set.is_empty()
    }
    pub fn iter(&self) -> Vec<u64> {
        self.set.iter().copied().collect()
    }
}

// -------------------------------------------------------------------- SHA-1

pub fn sha1(data: &[u8]) -> [u8; 20] {
    let mut h: [u32; 5] = [0x67452301, 0xEFCDAB89, 0x98BADCFE, 0x10325476, 0xC3D2E1F0];
    let ml = (data.len() as u64).wrapping_mul(8);
    let mut msg = data.to_vec();
    msg.push(0x80);
    while msg.len() % 64 != 56 {
        msg.push(0);
    }
    msg.extend_from_slice(&ml.to_be_bytes());
    for chunk in msg.chunks(64) {
        let mut w = [0u32; 80];
        for i in 0..16 {
            w[i] = u32::from_be_bytes([chunk[4 * i], chunk[4 * i + 1], chunk[4 * i + 2], chunk[4 * i + 3]]);
        }
        for i in 16..80 {
            w[i] = (w[i - 3] ^ w[i - 8] ^ w[i - 14] ^ w[i - 16]).rotate_left(1);
        }
        let (mut a, mut b, mut c, mut d, mut e) = (h[0], h[1], h[2], h[3], h[4]);
        for (i, wi) in w.iter().enumerate() {
            let (f, k) = match i {
                0..=19 => ((b & c) | ((!b) & d), 0x5A827999u32),
                20..=39 => (b ^ c ^ d, 0x6ED9EBA1),
                40..=59 => ((b & c) | (b & d) | (c & d), 0x8F1BBCDC),
                _ => (b ^ c ^ d, 0xCA62C1D6),
            };
            let temp = a
                .rotate_left(5)
                .wrapping_add(f)
                .wrapping_add(e)
                .wrapping_add(k)
                .wrapping_add(*wi);
            e = d;
            d = c;
            c = b.rotate_left(30);
            b = a;
            a = temp;
        }
        h[0] = h[0].wrapping_add(a);
        h[1] = h[1].wrapping_add(b);
        h[2] = h[2].wrapping_add(c);
        h[3] = h[3].wrapping_add(d);
        h[4] = h[4].wrapping_add(e);
    }
    let mut out = [0u8; 20];
    for i in 0..5 {
        out[4 * i..4 * i + 4].copy_from_slice(&h[i].to_be_bytes());
    }
    out
}

pub fn hex(b: &[u8]) -> String {
    let mut s = String::with_capacity(b.len() * 2);
    for x in b {
        let _ = write!(s, "{:02x}", x);
    }
    s
}

/// RFC 4122 version-5 UUID (SHA-1 of namespace bytes ++ name).
pub fn uuid_v5(ns: &[u8; 16], name: &[u8]) -> [u8; 16] {
    let mut buf = Vec::with_capacity(16 + name.len());
    buf.extend_from_slice(ns);
    buf.extend_from_slice(name);
    let d = sha1(&buf);
    let mut u = [0u8; 16];
    u.copy_from_slice(&d[..16]);
    u[6] = (u[6] & 0x0f) | 0x50;
    u[8] = (u[8] & 0x3f) | 0x80;
    u
}

pub const NAMESPACE_DNS: [u8; 16] = [
    0x6b, 0xa7, 0xb8, 0x10, 0x9d, 0xad, 0x11, 0xd1, 0x80, 0xb4, 0x00, 0xc0, 0x4f, 0xd4, 0x30, 0xc8,
];

pub fn uuid_to_string(u: &[u8; 16]) -> String {
    let h = hex(u);
    format!("{}-{}-{}-{}-{}", &h[0..8], &h[8..12], &h[12..16], &h[16..20], &h[20..32])
}

/// The documented proguard UUID: v5(v5(DNS,"guardsquare.com"), bytes).
pub fn proguard_uuid(bytes: &[u8]) -> String {
    let ns = uuid_v5(&NAMESPACE_DNS, b"guardsquare.com");
    uuid_to_string(&uuid_v5(&ns, bytes))
}

// ------------------------------------------------------------------- LEB128

pub fn leb128_write(out: &mut Vec<u8>, mut v: u64) {
    loop {
        let mut b = (v & 0x7f) as u8;
        v >>= 7;
        if v != 0 {
            b |= 0x80;
        }
        out.push(b);
        if v == 0 {
            break;
        }
    }
}

/// Returns (value, bytes consumed) or None (truncated / more than 64 bits).
pub fn leb128_read(b: &[u8]) -> Option<(u64, usize)> {
    let mut result = 0u64;
    let mut shift = 0u32;
    for (i, byte) in b.iter().enumerate() {
        if shift >= 64 {
            return None;
        }
        let low = (byte & 0x7f) as u64;
        if shift == 63 && low > 1 {
            return None;
        }
        result |= low << shift;
        if byte & 0x80 == 0 {
            return Some((result, i + 1));
        }
        shift += 7;
    }
    None
}

// --------------------------------------------------------------------- JSON

pub fn json_escape(s: &str) -> String {
    let mut o = String::with_capacity(s.len() + 2);
    o.push('"');
    for c in s.chars() {
        match c {
            '"' => o.push_str("\\\""),
            '\\' => o.push_str("\\\\"),
            '\n' => o.push_str("\\n"),
            '\r' => o.push_str("\\r"),
            '\t' => o.push_str("\\t"),
            c if (c as u32) < 0x20 || (0x7f..=0x9f).contains(&(c as u32)) || c == '\u{2028}' || c == '\u{2029}' => {
                let _ = write!(o, "\\u{:04x}", c as u32);
            }
            c => o.push(c),
        }
    }
    o.push('"');
    o
}

/// Escape arbitrary bytes: valid UTF-8 is kept, invalid bytes become \u00XX
/// private markers via lossless "latin1-escape" with a prefix note.
pub fn json_bytes(b: &[u8]) -> String {
    match std::str::from_utf8(b) {
        Ok(s) => json_escape(s),
        Err(_) => {
            let mut s = String::from("hex:");
            s.push_str(&hex(b));
            json_escape(&s)
        }
    }
}

#[derive(Clone, Debug)]
pub enum Json {
    Null,
    Bool(bool),
    Int(i128),
    Str(String),
    Arr(Vec<Json>),
    Obj(BTreeMap<String, Json>),
}

impl Json {
    pub fn obj() -> Json {
        Json::Obj(BTreeMap::new())
    }
    pub fn set(&mut self, k: &str, v: Json) -> &mut Json {
        if let Json::Obj(m) = self {
            m.insert(k.to_string(), v);
        }
        self
    }
    pub fn s(v: impl Into<String>) -> Json {
        Json::Str(v.into())
    }
    pub fn i(v: impl TryInto<i128>) -> Json {
        Json::Int(v.try_into().ok().unwrap_or(0))
    }
    pub fn render(&self) -> String {
        let mut o = String::new();
        self.render_into(&mut o);
        o
    }
    fn render_into(&self, o: &mut String) {
        match self {
            Json::Null => o.push_str("null"),
            Json::Bool(b) => o.push_str(if *b { "true" } else { "false" }),
            Json::Int(i) => {
                let _ = write!(o, "{}", i);
            }
            Json::Str(s) => o.push_str(&json_escape(s)),
            Json::Arr(a) => {
                o.push('[');
                for (i, x) in a.iter().enumerate() {
                    if i > 0 {
                        o.push(',');
                    }
                    x.render_into(o);
                }
                o.push(']');
            }
            Json::Obj(m) => {
                o.push('{');
                for (i, (k, v)) in m.iter().enumerate() {
                    if i > 0 {
                        o.push(',');
                    }
                    o.push_str(&json_escape(k));
                    o.push(':');
                    v.render_into(o);
                }
                o.push('}');
            }
        }
    }
}

// --------------------------------------------------------------- panic trap

#[derive(Clone, Debug)]
pub struct PanicInfo {
    pub file: String,
    pub line: u32,
    pub col: u32,
    pub msg: String,
}

impl PanicInfo {
    pub fn location(&self) -> String {
        format!("{}:{}:{}", self.file, self.line, self.col)
    }
    /// true if the panic location lies in the library under test or its
    /// format dependency (not in the harness).
    pub fn in_target(&self) -> bool {
        let f = &self.file;
        !(f.starts_with("pgverif/") || f.starts_with("core/src") || f.contains("/verif/harness/"))
    }
}

thread_local! {
    static LAST_PANIC: RefCell<Option<PanicInfo>> = const { RefCell::new(None) };
    static TRAP_DEPTH: RefCell<u32> = const { RefCell::new(0) };
}

static HOOK: Once = Once::new();

pub fn install_panic_hook() {
    HOOK.call_once(|| {
        let default = panic::take_hook();
        panic::set_hook(Box::new(move |info| {
            let trapped = TRAP_DEPTH.with(|d| *d.borrow() > 0);
            let (file, line, col) = info
                .location()
                .map(|l| (l.file().to_string(), l.line(), l.column()))
                .unwrap_or_else(|| ("<unknown>".to_string(), 0, 0));
            let msg = if let Some(s) = info.payload().downcast_ref::<&str>() {
                (*s).to_string()
            } else if let Some(s) = info.payload().downcast_ref::<String>() {
                s.clone()
            } else {
                "<non-string payload>".to_string()
            };
            LAST_PANIC.with(|p| *p.borrow_mut() = Some(PanicInfo { file, line, col, msg }));
            if !trapped {
                default(info);
            }
        }));
    });
}

/// Run `f`, catching a panic and returning where it happened.
pub fn trap<R>(f: impl FnOnce() -> R) -> Result<R, PanicInfo> {
    install_panic_hook();
    TRAP_DEPTH.with(|d| *d.borrow_mut() += 1);
    LAST_PANIC.with(|p| *p.borrow_mut() = None);
    let r = panic::catch_unwind(AssertUnwindSafe(f));
    TRAP_DEPTH.with(|d| *d.borrow_mut() -= 1);
    match r {
        Ok(v) => Ok(v),
        Err(_) => Err(LAST_PANIC.with(|p| p.borrow_mut().take()).unwrap_or(PanicInfo {
            file: "<unknown>".into(),
            line: 0,
            col: 0,
            msg: "<panic without hook record>".into(),
        })),
    }
}

// ----------------------------------------------------------------- selftest

pub fn selftest(light: bool) -> Result<(), String> {
    // FIPS 180 vectors
    if hex(&sha1(b"abc")) != "a9993e364706816aba3e25717850c26c9cd0d89d" {
        return Err("sha1(abc)".into());
    }
    if hex(&sha1(b"")) != "da39a3ee5e6b4b0d3255bfef95601890afd80709" {
        return Err("sha1(empty)".into());
    }
    if hex(&sha1(b"abcdbcdecdefdefgefghfghighijhijkijkljklmklmnlmnomnopnopq"))
        != "84983e441c3bd26ebaae4aa1f95129e5e54670f1"
    {
        return Err("sha1(448 bits)".into());
    }
    if !light {
        // too slow under an interpreter; the native self-test covers it
        let million = vec![b'a'; 1_000_000];
        if hex(&sha1(&million)) != "34aa973cd4c4daa4f61eeb2bdbad27316534016f" {
            return Err("sha1(million a)".into());
        }
    }
    // RFC 4122 / python uuid.uuid5(NAMESPACE_DNS, "python.org")
    if uuid_to_string(&uuid_v5(&NAMESPACE_DNS, b"python.org")) != "886313e1-3b8a-5372-9b90-0c9aee199e5d" {
        return Err("uuid5(python.org)".into());
    }
    if proguard_uuid(b"") != "0e71d76c-5067-5a02-a5d9-7e81070eb125" {
        return Err(format!("proguard_uuid(empty) = {}", proguard_uuid(b"")));
    }
    // LEB128
    for v in [0u64, 1, 127, 128, 300, 16383, 16384, u32::MAX as u64, u64::MAX] {
        let mut b = vec![];
        leb128_write(&mut b, v);
        if leb128_read(&b) != Some((v, b.len())) {
            return Err(format!("leb128 roundtrip {v}"));
        }
    }
    if leb128_read(&[0x80]).is_some() {
        return Err("leb128 truncated accepted".into());
    }
    // aligned buffer
    let ab = AlignedBuf::from_bytes(b"0123456789abc");
    if ab.as_slice() != b"0123456789abc" || ab.addr_range().0 % 8 != 0 {
        return Err("AlignedBuf".into());
    }
    // panic trap
    let r = trap(|| {
        let v: Vec<u8> = vec![];
        let i = std::hint::black_box(3usize);
        v[i]
    });
    match r {
        Err(p) if p.msg.contains("index out of bounds") && !p.in_target() => {}
        other => return Err(format!("panic trap: {other:?}")),
    }
    if json_escape("a\"\n\u{1}") != "\"a\\\"\\n\\u0001\"" {
        return Err("json_escape".into());
    }
    Ok(())
}
