//! Reference line parser R for C05: classifies a single line (no terminator)
//! as well-formed (with the record), documented-malformed (must be an error),
//! or neither (only totality is required). Written from the documented
//! grammar:
//!
//!   class : `orig -> obf:`
//!   field : `    type name -> obf`
//!   method: `    [s:e:]type [class.]name(args)[:os[:oe]] -> obf`
//!   header: `# key[: value]`  |  `# {"id":"sourceFile","fileName":"NAME"}`

#[derive(Clone, Debug, PartialEq, Eq)]
pub struct RLineMapping {
    pub start: u64,
    pub end: u64,
    pub ostart: Option<u64>,
    pub oend: Option<u64>,
}

#[derive(Clone, Debug, PartialEq, Eq)]
pub enum RRec {
    Header { key: String, value: Option<String> },
    Class { original: String, obfuscated: String },
    Field { ty: String, original: String, obfuscated: String },
    Method {
        ty: String,
        original: String,
        obfuscated: String,
        arguments: String,
        original_class: Option<String>,
        line_mapping: Option<RLineMapping>,
    },
}

#[derive(Clone, Debug, PartialEq, Eq)]
pub enum MalKind {
    Arrow,
    ClassColon,
    Indentation,
    StartWithoutEnd,
    MissingReturnType,
}

#[derive(Clone, Debug, PartialEq, Eq)]
pub enum RClass {
    WellFormed(RRec),
    Malformed(MalKind),
    Neither,
}

fn ident_char(c: char) -> bool {
    c.is_alphanumeric() || matches!(c, '$' | '_' | '<' | '>' | '-' | '[' | ']')
}

/// A (possibly qualified) name: non-empty dot-separated segments of ident
/// characters, not starting with a digit.
pub fn is_name(s: &str) -> bool {
    if s.is_empty() || s.chars().next().map_or(true, |c| c.is_ascii_digit()) {
        return false;
    }
    s.split('.').all(|seg| !seg.is_empty() && seg.chars().all(ident_char))
}

fn is_args(s: &str) -> bool {
    s.is_empty() || s.split(',').all(is_name)
}

fn num(s: &str) -> Option<u64> {
    if s.is_empty() || !s.bytes().all(|b| b.is_ascii_digit()) || s.len() > 19 {
        return None;
    }
    s.parse().ok()
}

const SF_PREFIX: &str = " {\"id\":\"sourceFile\",\"fileName\":\"";

fn header(line: &str) -> RClass {
    let body = &line[1..];
    if let Some(rest) = body.strip_prefix(SF_PREFIX) {
        // well-formed iff NAME has no quote and the line ends right after `"}`
        return match rest.find('"') {
            Some(i) if &rest[i..] == "\"}" => RClass::WellFormed(RRec::Header {
                key: "sourceFile".into(),
                value: Some(rest[..i].to_string()),
            }),
            _ => RClass::Neither,
        };
    }
    match body.find(':') {
        Some(i) => RClass::WellFormed(RRec::Header {
            key: body[..i].trim().to_string(),
            value: Some(body[i + 1..].trim().to_string()),
        }),
        None => RClass::WellFormed(RRec::Header { key: body.trim().to_string(), value: None }),
    }
}

fn class_line(line: &str) -> Option<RRec> {
    let (orig, rest) = line.split_once(" -> ")?;
    let obf = rest.strip_suffix(':')?;
    if is_name(orig) && is_name(obf) {
        Some(RRec::Class { original: orig.to_string(), obfuscated: obf.to_string() })
    } else {
        None
    }
}

/// `content` is the member line without its indentation.
fn member(content: &str) -> Option<RRec> {
    let (lhs, obf) = content.rsplit_once(" -> ")?;
    if !is_name(obf) || lhs.contains(" -> ") {
        return None;
    }
    // optional `s:e:` prefix
    let (range, rest) = match lhs.find(|c: char| !c.is_ascii_digit()) {
        Some(i) if i > 0 && lhs[i..].starts_with(':') => {
            let s = num(&lhs[..i])?;
            let after = &lhs[i + 1..];
            let j = after.find(|c: char| !c.is_ascii_digit())?;
            if j == 0 || !after[j..].starts_with(':') {
                return None;
            }
            let e = num(&after[..j])?;
            (Some((s, e)), &after[j + 1..])
        }
        Some(0) => (None, lhs),
        _ => return None,
    };
    let (ty, rest) = rest.split_once(' ')?;
    if !is_name(ty) {
        return None;
    }
    if let Some(p) = rest.find('(') {
        // method
        let qual = &rest[..p];
        let close = rest.find(')')?;
        if close < p {
            return None;
        }
        let args = &rest[p + 1..close];
        if !is_name(qual) || !is_args(args) {
            return None;
        }
        let tail = &rest[close + 1..];
        let (ostart, oend) = if tail.is_empty() {
            (None, None)
        } else {
            let t = tail.strip_prefix(':')?;
            match t.split_once(':') {
                Some((a, b)) => (Some(num(a)?), Some(num(b)?)),
                None => (Some(num(t)?), None),
            }
        };
        let (original_class, original) = match qual.rsplit_once('.') {
            Some((c, m)) => (Some(c.to_string()), m.to_string()),
            None => (None, qual.to_string()),
        };
        let line_mapping = match range {
            Some((s, e)) if s > 0 && e > 0 => Some(RLineMapping { start: s, end: e, ostart, oend }),
            _ => None,
        };
        Some(RRec::Method {
            ty: ty.to_string(),
            original,
            obfuscated: obf.to_string(),
            arguments: args.to_string(),
            original_class,
            line_mapping,
        })
    } else {
        // field: no range prefix, plain name
        if range.is_some() || !is_name(rest) {
            return None;
        }
        Some(RRec::Field { ty: ty.to_string(), original: rest.to_string(), obfuscated: obf.to_string() })
    }
}

/// Method shape without a return type: `[s:e:]name(args)[:os[:oe]] -> obf`.
fn method_without_type(content: &str) -> bool {
    // adding a type in front must make it a well-formed method, and the
    // content itself must have no space before the parenthesis.
    let Some((lhs, _)) = content.rsplit_once(" -> ") else { return false };
    if lhs.contains(' ') {
        return false;
    }
    let split = match lhs.find(|c: char| !c.is_ascii_digit()) {
        Some(i) if i > 0 => {
            // s:e: prefix
            let after = &lhs[i..];
            if !after.starts_with(':') {
                return false;
            }
            let a2 = &after[1..];
            match a2.find(|c: char| !c.is_ascii_digit()) {
                Some(j) if j > 0 && a2[j..].starts_with(':') => i + 1 + j + 1,
                _ => return false,
            }
        }
        _ => 0,
    };
    let with_type = format!("{}void {}{}", &content[..split], &content[split..], "");
    matches!(member(&with_type), Some(RRec::Method { .. }))
}

pub fn classify(line: &str) -> RClass {
    if line.contains('\n') || line.contains('\r') {
        return RClass::Neither;
    }
    if line.starts_with('#') {
        return header(line);
    }
    if let Some(content) = line.strip_prefix("    ") {
        if !content.starts_with(' ') && !content.starts_with('\t') {
            if let Some(r) = member(content) {
                return RClass::WellFormed(r);
            }
            if !content.contains(" -> ") {
                return RClass::Malformed(MalKind::Arrow);
            }
            // start line without end line: `N:` + member without range
            if let Some(i) = content.find(|c: char| !c.is_ascii_digit()) {
                if i > 0 && content[i..].starts_with(':') {
                    let rest = &content[i + 1..];
                    if matches!(member(rest), Some(RRec::Method { line_mapping: None, .. }))
                        && !rest.starts_with(|c: char| c.is_ascii_digit())
                    {
                        return RClass::Malformed(MalKind::StartWithoutEnd);
                    }
                }
            }
            if method_without_type(content) {
                return RClass::Malformed(MalKind::MissingReturnType);
            }
            return RClass::Neither;
        }
    }
    // not exactly four spaces of indentation
    if line.starts_with(' ') || line.starts_with('\t') {
        let content = line.trim_start_matches([' ', '\t']);
        let ws = &line[..line.len() - content.len()];
        // four spaces followed by a tab: the tab could be read as part of the
        // type token; no claim is made for that shape.
        let debatable = ws.starts_with("    ") && ws[4..].starts_with('\t');
        if !debatable && matches!(member(content), Some(RRec::Method { .. })) {
            return RClass::Malformed(MalKind::Indentation);
        }
        if !line.contains(" -> ") {
            return RClass::Malformed(MalKind::Arrow);
        }
        return RClass::Neither;
    }
    // top level
    if let Some(r) = class_line(line) {
        return RClass::WellFormed(r);
    }
    if !line.contains(" -> ") {
        return RClass::Malformed(MalKind::Arrow);
    }
    if let Some((orig, rest)) = line.split_once(" -> ") {
        if is_name(orig) && is_name(rest) {
            return RClass::Malformed(MalKind::ClassColon);
        }
    }
    RClass::Neither
}
