//! Reference model M: an executable transcription of the property statements
//! over the generator's AST. Shares no code with the library under test.

use crate::ast::{Item, MapAst, MethodEntry};
use std::collections::HashMap;

#[derive(Clone, Debug, PartialEq, Eq)]
pub struct MFrame<'a> {
    pub class: &'a str,
    pub method: &'a str,
    pub file: Option<&'a str>,
    pub line: u128,
    pub params: Option<&'a str>,
}

/// Semantic cases the model took while answering (bit flags).
pub mod case {
    pub const RANGE_OFFSET: u32 = 1 << 0; // ostart + (line - start), oend != ostart
    pub const RANGE_OFFSET_LONG: u32 = 1 << 1; // same, with end - start >= 2
    pub const COLLAPSE: u32 = 1 << 2; // oend == ostart
    pub const CALL_SITE: u32 = 1 << 3; // only ostart printed
    pub const IDENTITY: u32 = 1 << 4; // no original lines printed, range usable
    pub const NO_RANGE: u32 = 1 << 5; // entry without usable range -> line 0
    pub const SOURCE_FILE: u32 = 1 << 6; // file from sourceFile header
    pub const SYNTHETIC: u32 = 1 << 7; // R8$$SyntheticClass rule
    pub const FOREIGN_NO_FILE: u32 = 1 << 8;
    pub const QUERY_FILE: u32 = 1 << 9;
    pub const INVERTED_SKIPPED: u32 = 1 << 10;
    pub const OUT_OF_RANGE_SKIPPED: u32 = 1 << 11;
    pub const DUP_CLASS_OVERRIDE: u32 = 1 << 12;
    pub const UNKNOWN_CLASS: u32 = 1 << 13;
    pub const UNKNOWN_METHOD: u32 = 1 << 14;
    pub const INLINE_FILTERED: u32 = 1 << 15;
    pub const DEDUP_HIT: u32 = 1 << 16;
    pub const MULTI_FRAME: u32 = 1 << 17;
    pub const SRCFILE_MID_BLOCK: u32 = 1 << 18; // header after at least one entry of the block
    pub const SRCFILE_RESET: u32 = 1 << 19; // valueless header reset an earlier file
    pub const NON_FIRST_CLASS: u32 = 1 << 20; // by-params answer from a class that is not first in sort order
    pub const FOREIGN_CLASS: u32 = 1 << 21;
    pub const N: usize = 22;
    pub const NAMES: [&str; N] = [
        "range_offset",
        "range_offset_len_ge_2",
        "single_line_collapse",
        "call_site",
        "identity",
        "no_range_line0",
        "source_file_header",
        "synthetic_class_file",
        "foreign_class_no_file",
        "query_file",
        "inverted_range_skipped",
        "out_of_range_skipped",
        "duplicate_class_override",
        "unknown_class",
        "unknown_method",
        "inline_filtered",
        "dedup_hit",
        "multi_frame_answer",
        "source_file_mid_block",
        "source_file_reset",
        "params_from_non_first_class",
        "foreign_class",
    ];
}

#[derive(Clone, Debug)]
pub struct Entry<'a> {
    pub m: &'a MethodEntry,
    pub file: Option<&'a str>,
    /// the next *record* of the file is a method entry with a usable range
    /// identical to this entry's usable range
    pub inlined_callee: bool,
    pub srcfile_mid_block: bool,
    pub srcfile_reset: bool,
}

#[derive(Clone, Debug)]
pub struct Block<'a> {
    pub orig: &'a str,
    pub obf: &'a str,
    pub entries: Vec<Entry<'a>>,
    pub overrides_earlier: bool,
    /// rank of this obfuscated name among the surviving classes (byte order)
    pub sort_rank: usize,
}

pub struct Model<'a> {
    pub blocks: HashMap<&'a str, Block<'a>>,
}

pub fn outer_simple_name(class: &str) -> &str {
    let after = match class.rfind('.') {
        Some(i) => &class[i + 1..],
        None => class,
    };
    match after.find('$') {
        Some(i) => &after[..i],
        None => after,
    }
}

impl<'a> Model<'a> {
    pub fn new(ast: &'a MapAst) -> Model<'a> {
        let mut blocks: HashMap<&'a str, Block<'a>> = HashMap::new();
        let mut cur: Option<Block<'a>> = None;
        let mut file: Option<&'a str> = None;
        let mut had_file = false;
        let mut mid = false;
        let mut reset = false;
        let items = &ast.items;
        for (idx, it) in items.iter().enumerate() {
            match it {
                Item::Class { orig, obf } => {
                    if let Some(b) = cur.take() {
                        blocks.insert(b.obf, b);
                    }
                    cur = Some(Block {
                        orig,
                        obf,
                        entries: vec![],
                        overrides_earlier: blocks.contains_key(obf.as_str()),
                        sort_rank: 0,
                    });
                    file = None;
                    had_file = false;
                    mid = false;
                    reset = false;
                }
                Item::Method(m) => {
                    if let Some(b) = cur.as_mut() {
                        // next record (skipping noise and blank lines)
                        let next = items[idx + 1..].iter().find(|i| i.is_record());
                        let inlined_callee = match (m.usable(), next) {
                            (Some(r), Some(Item::Method(n))) => n.usable() == Some(r),
                            _ => false,
                        };
                        b.entries.push(Entry { m, file, inlined_callee, srcfile_mid_block: mid, srcfile_reset: reset });
                    }
                }
                other => {
                    if let Some(sf) = other.source_file() {
                        if let Some(b) = cur.as_ref() {
                            mid = !b.entries.is_empty();
                            reset = sf.is_none() && had_file;
                            if sf.is_some() {
                                had_file = true;
                            }
                            file = sf;
                        }
                    }
                }
            }
        }
        if let Some(b) = cur.take() {
            blocks.insert(b.obf, b);
        }
        let mut names: Vec<&str> = blocks.keys().copied().collect();
        names.sort();
        for (i, n) in names.iter().enumerate() {
            blocks.get_mut(n).unwrap().sort_rank = i;
        }
        Model { blocks }
    }

    /// The entries of a block that belong in the by-params index, in file
    /// order: non-inlined, first of each (obfuscated, args, original).
    pub fn params_entries<'m>(b: &'m Block<'a>) -> Vec<&'m Entry<'a>> {
        let mut seen: Vec<(&str, &str, &str)> = vec![];
        let mut out = vec![];
        for e in &b.entries {
            if e.inlined_callee {
                continue;
            }
            let key = (e.m.obf.as_str(), e.m.args.as_str(), e.m.orig.as_str());
            if seen.contains(&key) {
                continue;
            }
            seen.push(key);
            out.push(e);
        }
        out
    }

    pub fn class(&self, c: &str) -> Option<&'a str> {
        self.blocks.get(c).map(|b| b.orig)
    }

    /// (original class, original method) iff unambiguous.
    pub fn method(&self, c: &str, m: &str) -> Option<(&'a str, &'a str)> {
        let b = self.blocks.get(c)?;
        let mut it = b.entries.iter().filter(|e| e.m.obf == m);
        let first = it.next()?;
        if it.all(|e| e.m.orig == first.m.orig) {
            Some((b.orig, first.m.orig.as_str()))
        } else {
            None
        }
    }

    pub fn frames_by_line(
        &self,
        c: &str,
        m: &str,
        line: u128,
        qfile: Option<&'a str>,
        out: &mut Vec<MFrame<'a>>,
    ) -> u32 {
        out.clear();
        let mut cases = 0u32;
        let Some(b) = self.blocks.get(c) else {
            return case::UNKNOWN_CLASS;
        };
        if b.overrides_earlier {
            cases |= case::DUP_CLASS_OVERRIDE;
        }
        let mut any = false;
        for e in b.entries.iter().filter(|e| e.m.obf == m) {
            any = true;
            let me = e.m;
            let oline;
            match me.usable() {
                Some((s, en)) => {
                    if !(s <= line && line <= en) {
                        cases |= if s > en { case::INVERTED_SKIPPED } else { case::OUT_OF_RANGE_SKIPPED };
                        continue;
                    }
                    match (me.ostart, me.oend) {
                        (None, _) => {
                            cases |= case::IDENTITY;
                            oline = if s == en { s } else { line };
                        }
                        (Some(os), None) => {
                            cases |= case::CALL_SITE;
                            oline = os;
                        }
                        (Some(os), Some(oe)) => {
                            if oe == os {
                                cases |= case::COLLAPSE;
                                oline = os;
                            } else {
                                cases |= case::RANGE_OFFSET;
                                if en - s >= 2 {
                                    cases |= case::RANGE_OFFSET_LONG;
                                }
                                oline = os + (line - s);
                            }
                        }
                    }
                }
                None => {
                    cases |= case::NO_RANGE;
                    oline = 0;
                }
            }
            let class: &'a str = match &me.orig_class {
                Some(fc) => {
                    cases |= case::FOREIGN_CLASS;
                    fc.as_str()
                }
                None => b.orig,
            };
            let file = match e.file {
                Some(f) if f == "R8$$SyntheticClass" => {
                    cases |= case::SYNTHETIC;
                    Some(outer_simple_name(class))
                }
                Some(f) => {
                    cases |= case::SOURCE_FILE;
                    if e.srcfile_mid_block {
                        cases |= case::SRCFILE_MID_BLOCK;
                    }
                    Some(f)
                }
                None => {
                    if e.srcfile_reset {
                        cases |= case::SRCFILE_RESET;
                    }
                    if me.orig_class.is_some() {
                        cases |= case::FOREIGN_NO_FILE;
                        None
                    } else {
                        if qfile.is_some() {
                            cases |= case::QUERY_FILE;
                        }
                        qfile
                    }
                }
            };
            out.push(MFrame { class, method: me.orig.as_str(), file, line: oline, params: None });
        }
        if !any {
            cases |= case::UNKNOWN_METHOD;
        }
        if out.len() > 1 {
            cases |= case::MULTI_FRAME;
        }
        cases
    }

    pub fn frames_by_params(&self, c: &str, m: &str, p: &'a str, out: &mut Vec<MFrame<'a>>) -> u32 {
        out.clear();
        let mut cases = 0u32;
        let Some(b) = self.blocks.get(c) else {
            return case::UNKNOWN_CLASS;
        };
        if b.overrides_earlier {
            cases |= case::DUP_CLASS_OVERRIDE;
        }
        // dedup is over (obf, args, original) within the block, in file order,
        // considering only non-inlined entries (an inlined callee neither
        // appears nor claims the key).
        let mut seen: Vec<(&str, &str, &str)> = vec![];
        let mut any = false;
        for e in b.entries.iter() {
            let me = e.m;
            if e.inlined_callee {
                if me.obf == m && me.args == p {
                    cases |= case::INLINE_FILTERED;
                }
                continue;
            }
            let key = (me.obf.as_str(), me.args.as_str(), me.orig.as_str());
            if seen.contains(&key) {
                if me.obf == m && me.args == p {
                    cases |= case::DEDUP_HIT;
                }
                continue;
            }
            seen.push(key);
            if me.obf == m {
                any = true;
            }
            if me.obf == m && me.args == p {
                let class: &'a str = match &me.orig_class {
                    Some(fc) => {
                        cases |= case::FOREIGN_CLASS;
                        fc.as_str()
                    }
                    None => b.orig,
                };
                out.push(MFrame { class, method: me.orig.as_str(), file: None, line: 0, params: Some(p) });
            }
        }
        if !any {
            cases |= case::UNKNOWN_METHOD;
        }
        if !out.is_empty() && b.sort_rank > 0 {
            cases |= case::NON_FIRST_CLASS;
        }
        if out.len() > 1 {
            cases |= case::MULTI_FRAME;
        }
        cases
    }
}

// ----------------------------------------------------------- C19 folds

#[derive(Clone, Debug, PartialEq, Eq, Default)]
pub struct Folds {
    pub has_line_info: bool,
    pub class_count: usize,
    pub method_count: usize,
    pub compiler: Option<String>,
    pub compiler_version: Option<String>,
    pub min_api: Option<u32>,
    pub is_valid: bool,
}

/// Folds over the item stream. An *item* is every non-blank line (records
/// and error lines alike).
pub fn folds(ast: &MapAst) -> Folds {
    let mut f = Folds::default();
    let mut has_class = false;
    let mut n_items = 0usize;
    for it in &ast.items {
        if matches!(it, Item::Blank) {
            continue;
        }
        n_items += 1;
        match it {
            Item::Class { .. } => {
                f.class_count += 1;
                if n_items <= 50 {
                    has_class = true;
                }
            }
            Item::Method(m) => {
                f.method_count += 1;
                if m.usable().is_some() {
                    f.has_line_info = true;
                }
                if n_items <= 50 && has_class {
                    f.is_valid = true;
                }
            }
            Item::Field { .. } => {
                if n_items <= 50 && has_class {
                    f.is_valid = true;
                }
            }
            Item::HeaderKV { key, value } => match key.as_str() {
                "compiler" => f.compiler = value.clone(),
                "compiler_version" => f.compiler_version = value.clone(),
                "min_api" => f.min_api = value.as_ref().and_then(|v| parse_u32_like_rust(v)),
                _ => {}
            },
            _ => {}
        }
    }
    f
}

/// `str::parse::<u32>` semantics: optional '+', then ASCII digits, no overflow.
pub fn parse_u32_like_rust(s: &str) -> Option<u32> {
    let digits = s.strip_prefix('+').unwrap_or(s);
    if digits.is_empty() || !digits.bytes().all(|b| b.is_ascii_digit()) {
        return None;
    }
    let mut v: u64 = 0;
    for b in digits.bytes() {
        v = v * 10 + (b - b'0') as u64;
        if v > u32::MAX as u64 {
            return None;
        }
    }
    Some(v as u32)
}
