//! JVM method-descriptor generator, model and independent recogniser.

use crate::rng::Rng;

#[derive(Clone, Debug, PartialEq, Eq)]
pub enum Ty {
    Prim(char),
    /// internal name with '/' separators
    Obj(String),
    Arr(usize, Box<Ty>),
}

pub const PRIMS: &[(char, &str)] = &[
    ('Z', "boolean"),
    ('B', "byte"),
    ('C', "char"),
    ('S', "short"),
    ('I', "int"),
    ('J', "long"),
    ('F', "float"),
    ('D', "double"),
];

impl Ty {
    pub fn print(&self) -> String {
        match self {
            Ty::Prim(c) => c.to_string(),
            Ty::Obj(n) => format!("L{};", n),
            Ty::Arr(d, t) => format!("{}{}", "[".repeat(*d), t.print()),
        }
    }
    /// Java rendering; `lookup` maps a dotted obfuscated class name to its original.
    pub fn java(&self, lookup: &dyn Fn(&str) -> Option<String>) -> String {
        match self {
            Ty::Prim('V') => "void".to_string(),
            Ty::Prim(c) => PRIMS.iter().find(|(p, _)| p == c).map(|(_, n)| n.to_string()).unwrap_or_default(),
            Ty::Obj(n) => {
                let dotted = n.replace('/', ".");
                lookup(&dotted).unwrap_or(dotted)
            }
            Ty::Arr(d, t) => format!("{}{}", t.java(lookup), "[]".repeat(*d)),
        }
    }
}

#[derive(Clone, Debug, PartialEq, Eq)]
pub struct Desc {
    pub params: Vec<Ty>,
    pub ret: Ty, // Prim('V') for void
}

impl Desc {
    pub fn print(&self) -> String {
        let mut s = String::from("(");
        for p in &self.params {
            s.push_str(&p.print());
        }
        s.push(')');
        s.push_str(&self.ret.print());
        s
    }
    pub fn expected(&self, lookup: &dyn Fn(&str) -> Option<String>) -> (Vec<String>, String, String) {
        let params: Vec<String> = self.params.iter().map(|p| p.java(lookup)).collect();
        let ret = self.ret.java(lookup);
        let mut f = format!("({})", params.join(", "));
        if ret != "void" {
            f.push_str(": ");
            f.push_str(&ret);
        }
        (params, ret, f)
    }
}

pub const TRICKY_OBJ: &[&str] = &[
    "I", "L", "V", "Lib", "x/Long", "Z$B", "java/lang/String", "é/Ü", "a/a/a/a/c", "J", "LL", "II/ZZ", "D1", "a-b",
];

pub fn gen_ty(rng: &mut Rng, obf_classes: &[String], allow_void: bool, depth_ok: bool) -> Ty {
    let r = rng.below(10);
    if allow_void && r == 0 {
        return Ty::Prim('V');
    }
    if depth_ok && r <= 2 {
        // now and then more dimensions than any narrow counter holds
        let d = if rng.chance(1, 40) { *rng.pick(&[255usize, 256, 257, 300, 1000]) } else { 1 + rng.below(3) };
        return Ty::Arr(d, Box::new(gen_ty(rng, obf_classes, false, false)));
    }
    if r <= 5 {
        return Ty::Prim(rng.pick(PRIMS).0);
    }
    if r <= 7 && !obf_classes.is_empty() {
        // mapped class, dotted -> internal
        let c = rng.pick(obf_classes);
        if !c.is_empty() && !c.contains(';') && !c.contains('/') && !c.contains('(') && !c.contains(')') && !c.contains('[') {
            return Ty::Obj(c.replace('.', "/"));
        }
    }
    Ty::Obj(rng.pick(TRICKY_OBJ).to_string())
}

pub fn gen_desc(rng: &mut Rng, obf_classes: &[String]) -> Desc {
    let n = rng.below(7);
    Desc {
        params: (0..n).map(|_| gen_ty(rng, obf_classes, false, true)).collect(),
        ret: gen_ty(rng, obf_classes, true, true),
    }
}

/// Bounded-exhaustive: all descriptors with <= 3 parameters over a 6-type
/// alphabet x 7 return types.
pub fn exhaustive_small(mapped: &str) -> Vec<Desc> {
    let alpha = [
        Ty::Prim('I'),
        Ty::Prim('J'),
        Ty::Obj("java/lang/String".into()),
        Ty::Obj(mapped.replace('.', "/")),
        Ty::Arr(1, Box::new(Ty::Prim('B'))),
        Ty::Arr(2, Box::new(Ty::Obj("I".into()))),
    ];
    let mut rets = alpha.to_vec();
    rets.push(Ty::Prim('V'));
    let mut out = vec![];
    let mut lists: Vec<Vec<Ty>> = vec![vec![]];
    let mut frontier: Vec<Vec<Ty>> = vec![vec![]];
    for _ in 0..3 {
        let mut next = vec![];
        for l in &frontier {
            for a in &alpha {
                let mut n = l.clone();
                n.push(a.clone());
                next.push(n);
            }
        }
        lists.extend(next.iter().cloned());
        frontier = next;
    }
    for l in lists {
        for r in &rets {
            out.push(Desc { params: l.clone(), ret: r.clone() });
        }
    }
    out
}

#[derive(Clone, Copy, Debug, PartialEq, Eq)]
pub enum DescClass {
    Valid,
    /// (a) no parenthesised parameter list
    NoParenList,
    /// (b) no return type
    NoReturnType,
    /// (c) unterminated object type
    UnterminatedObject,
    OtherInvalid,
}

/// Independent recursive-descent recogniser of the descriptor grammar.
/// For valid strings returns the parsed descriptor.
pub fn recognise(s: &str) -> (DescClass, Option<Desc>) {
    let Some(rest) = s.strip_prefix('(') else {
        return (DescClass::NoParenList, None);
    };
    if !rest.contains(')') {
        return (DescClass::NoParenList, None);
    }
    let mut chars: Vec<char> = rest.chars().collect();
    // find the end of the parameter list by parsing field types
    let mut i = 0usize;
    let mut params = vec![];
    loop {
        if i >= chars.len() {
            return (DescClass::OtherInvalid, None);
        }
        if chars[i] == ')' {
            i += 1;
            break;
        }
        match parse_field(&chars, &mut i) {
            Ok(t) => params.push(t),
            Err(c) => return (c, None),
        }
    }
    if i >= chars.len() {
        return (DescClass::NoReturnType, None);
    }
    let ret = if chars[i] == 'V' && i + 1 == chars.len() {
        Ty::Prim('V')
    } else {
        let mut j = i;
        match parse_field(&chars, &mut j) {
            Ok(t) if j == chars.len() => t,
            Ok(_) => return (DescClass::OtherInvalid, None),
            Err(c) => return (c, None),
        }
    };
    chars.clear();
    (DescClass::Valid, Some(Desc { params, ret }))
}

fn parse_field(c: &[char], i: &mut usize) -> Result<Ty, DescClass> {
    let mut depth = 0;
    while *i < c.len() && c[*i] == '[' {
        depth += 1;
        *i += 1;
    }
    if *i >= c.len() {
        return Err(DescClass::OtherInvalid);
    }
    let base = match c[*i] {
        'L' => {
            let start = *i + 1;
            let mut j = start;
            while j < c.len() && c[j] != ';' {
                j += 1;
            }
            if j >= c.len() {
                return Err(DescClass::UnterminatedObject);
            }
            let name: String = c[start..j].iter().collect();
            if name.is_empty() || name.contains(')') || name.contains('(') || name.contains('[') || name.contains('.') {
                return Err(DescClass::OtherInvalid);
            }
            *i = j + 1;
            Ty::Obj(name)
        }
        ch if PRIMS.iter().any(|(p, _)| *p == ch) => {
            *i += 1;
            Ty::Prim(ch)
        }
        _ => return Err(DescClass::OtherInvalid),
    };
    Ok(if depth > 0 { Ty::Arr(depth, Box::new(base)) } else { base })
}

/// All single-character edits of `s` over the descriptor alphabet.
pub fn single_edits(s: &str) -> Vec<String> {
    const ALPHA: &[char] = &['(', ')', 'L', ';', '[', 'I', 'V', '/', 'a', 'é', 'X'];
    let chars: Vec<char> = s.chars().collect();
    let mut out = vec![];
    for i in 0..chars.len() {
        let mut d = chars.clone();
        d.remove(i);
        out.push(d.iter().collect());
        for a in ALPHA {
            if chars[i] != *a {
                let mut r = chars.clone();
                r[i] = *a;
                out.push(r.iter().collect());
            }
        }
    }
    for i in 0..=chars.len() {
        for a in ALPHA {
            let mut r = chars.clone();
            r.insert(i, *a);
            out.push(r.iter().collect());
        }
    }
    out
}

/// Arbitrary signature-like strings over the descriptor delimiters and multi-byte characters.
pub fn arbitrary_sig(rng: &mut Rng) -> String {
    const A: &[&str] = &["(", ")", "L", ";", "[", "I", "V", "J", "/", "é", "日", "a", "Z", ":", ".", " ", "\u{1F600}", "La/b;", "[[", "Lé;", ")V", "(L"];
    let n = rng.below(10);
    let mut s: String = (0..n).map(|_| *rng.pick(A)).collect();
    if rng.chance(1, 30) {
        // hundreds of array dimensions in front of some token
        let at = (0..=s.len()).filter(|i| s.is_char_boundary(*i)).nth(rng.below(s.chars().count() + 1)).unwrap_or(0);
        s.insert_str(at, &"[".repeat(*rng.pick(&[255usize, 256, 257, 512, 70000])));
    }
    s
}
