//! Deterministic PRNG (splitmix64 seeding + xoshiro256**). No external crates.

#[derive(Clone, Debug)]
pub struct Rng {
    s: [u64; 4],
}

pub fn splitmix64(state: &mut u64) -> u64 {
    *state = state.wrapping_add(0x9E37_79B9_7F4A_7C15);
    let mut z = *state;
    z = (z ^ (z >> 30)).wrapping_mul(0xBF58_476D_1CE4_E5B9);
    z = (z ^ (z >> 27)).wrapping_mul(0x94D0_49BB_1331_11EB);
    z ^ (z >> 31)
}

/// Mix several integers into one seed (order-sensitive).
pub fn mix(parts: &[u64]) -> u64 {
    let mut st = 0x1234_5678_9ABC_DEF0u64;
    let mut acc = 0u64;
    for p in parts {
        st ^= *p;
        acc = acc.rotate_left(17) ^ splitmix64(&mut st);
    }
    acc
}

impl Rng {
    pub fn new(seed: u64) -> Rng {
        let mut st = seed;
        let s = [
            splitmix64(&mut st),
            splitmix64(&mut st),
            splitmix64(&mut st),
            splitmix64(&mut st),
        ];
        Rng { s }
    }

    #[inline]
    pub fn next_u64(&mut self) -> u64 {
        let result = self.s[1].wrapping_mul(5).rotate_left(7).wrapping_mul(9);
        let t = self.s[1] << 17;
        self.s[2] ^= self.s[0];
        self.s[3] ^= self.s[1];
        self.s[1] ^= self.s[2];
        self.s[0] ^= self.s[3];
        self.s[2] ^= t;
        self.s[3] = self.s[3].rotate_left(45);
        result
    }

    /// Uniform in 0..n (n > 0).
    #[inline]
    pub fn below(&mut self, n: usize) -> usize {
        debug_assert!(n > 0);
        ((self.next_u64() as u128 * n as u128) >> 64) as usize
    }

    /// Uniform in lo..=hi.
    #[inline]
    pub fn range(&mut self, lo: usize, hi: usize) -> usize {
        lo + self.below(hi - lo + 1)
    }

    /// True with probability num/den.
    #[inline]
    pub fn chance(&mut self, num: usize, den: usize) -> bool {
        self.below(den) < num
    }

    pub fn pick<'a, T>(&mut self, xs: &'a [T]) -> &'a T {
        &xs[self.below(xs.len())]
    }

    pub fn shuffle<T>(&mut self, xs: &mut [T]) {
        for i in (1..xs.len()).rev() {
            let j = self.below(i + 1);
            xs.swap(i, j);
        }
    }

    pub fn fork(&mut self) -> Rng {
        Rng::new(self.next_u64())
    }
}

/// A random non-ASCII alphabetic character from several Unicode blocks (so that
/// the trailing UTF-8 byte takes every continuation value, incl. 0x85 and 0xA0).
pub fn unicode_letter(rng: &mut Rng) -> char {
    loop {
        let cp = match rng.below(6) {
            0 => 0xC0 + rng.below(0x40) as u32,    // Latin-1 letters
            1 => 0x100 + rng.below(0x80) as u32,   // Latin Extended-A
            2 => 0x391 + rng.below(0x39) as u32,   // Greek
            3 => 0x410 + rng.below(0x40) as u32,   // Cyrillic
            4 => 0x4E00 + rng.below(0x100) as u32, // CJK
            _ => 0x905 + rng.below(0x35) as u32,   // Devanagari letters
        };
        if let Some(c) = char::from_u32(cp) {
            if c.is_alphabetic() {
                return c;
            }
        }
    }
}

pub fn selftest() -> Result<(), String> {
    // splitmix64 reference vector (seed 1234567): first outputs from the reference C code.
    let mut st = 1234567u64;
    let a = splitmix64(&mut st);
    let b = splitmix64(&mut st);
    if a != 6457827717110365317 || b != 3203168211198807973 {
        return Err(format!("splitmix64 vector mismatch: {a} {b}"));
    }
    let mut r = Rng::new(42);
    let mut seen = [0usize; 7];
    for _ in 0..7000 {
        seen[r.below(7)] += 1;
    }
    if seen.iter().any(|&c| c < 700 || c > 1300) {
        return Err(format!("below() badly skewed: {seen:?}"));
    }
    Ok(())
}
