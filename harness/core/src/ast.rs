//! Mapping-file AST, printer and generator ("make histories unambiguous":
//! every oracle is computed from this AST, never by re-parsing text with
//! library code).

use crate::rng::Rng;

#[derive(Clone, Debug, PartialEq, Eq)]
pub struct MethodEntry {
    /// printed as `start:end:` when both are Some
    pub start: Option<u128>,
    pub end: Option<u128>,
    pub ret: String,
    pub orig_class: Option<String>,
    pub orig: String,
    pub args: String,
    pub ostart: Option<u128>,
    pub oend: Option<u128>,
    pub obf: String,
}

impl MethodEntry {
    /// usable obfuscated range: both printed and both positive
    pub fn usable(&self) -> Option<(u128, u128)> {
        match (self.start, self.end) {
            (Some(s), Some(e)) if s > 0 && e > 0 => Some((s, e)),
            _ => None,
        }
    }
    pub fn print(&self) -> String {
        let mut s = String::from("    ");
        if let (Some(a), Some(b)) = (self.start, self.end) {
            s.push_str(&format!("{}:{}:", a, b));
        }
        s.push_str(&self.ret);
        s.push(' ');
        if let Some(c) = &self.orig_class {
            s.push_str(c);
            s.push('.');
        }
        s.push_str(&self.orig);
        s.push('(');
        s.push_str(&self.args);
        s.push(')');
        if let Some(os) = self.ostart {
            s.push_str(&format!(":{}", os));
            if let Some(oe) = self.oend {
                s.push_str(&format!(":{}", oe));
            }
        }
        s.push_str(" -> ");
        s.push_str(&self.obf);
        s
    }
}

#[derive(Clone, Debug, PartialEq, Eq)]
pub enum Item {
    Class { orig: String, obf: String },
    Method(MethodEntry),
    Field { ty: String, orig: String, obf: String },
    /// `# {"id":"sourceFile","fileName":"NAME"}`
    SourceFileJson { name: String },
    /// `# key: value` / `# key`
    HeaderKV { key: String, value: Option<String> },
    /// a line that is malformed by the documented grammar (an error item)
    Noise(String),
    /// an empty line
    Blank,
}

impl Item {
    pub fn print(&self) -> String {
        match self {
            Item::Class { orig, obf } => format!("{} -> {}:", orig, obf),
            Item::Method(m) => m.print(),
            Item::Field { ty, orig, obf } => format!("    {} {} -> {}", ty, orig, obf),
            Item::SourceFileJson { name } => {
                format!("# {{\"id\":\"sourceFile\",\"fileName\":\"{}\"}}", name)
            }
            Item::HeaderKV { key, value } => match value {
                Some(v) => format!("# {}: {}", key, v),
                None => format!("# {}", key),
            },
            Item::Noise(s) => s.clone(),
            Item::Blank => String::new(),
        }
    }
    /// A record the library's iterator yields as `Ok` (anything except noise
    /// and blank lines).
    pub fn is_record(&self) -> bool {
        !matches!(self, Item::Noise(_) | Item::Blank)
    }
    /// sourceFile header semantics: Some(Some(name)) sets, Some(None) resets.
    pub fn source_file(&self) -> Option<Option<&str>> {
        match self {
            Item::SourceFileJson { name } => Some(Some(name.as_str())),
            Item::HeaderKV { key, value } if key == "sourceFile" => Some(value.as_deref()),
            _ => None,
        }
    }
}

#[derive(Clone, Debug, Default, PartialEq, Eq)]
pub struct MapAst {
    pub items: Vec<Item>,
}

#[derive(Clone, Copy, Debug, PartialEq, Eq)]
pub enum Term {
    Lf,
    CrLf,
    Cr,
    Mixed,
}

impl Term {
    pub const ALL: [Term; 4] = [Term::Lf, Term::CrLf, Term::Cr, Term::Mixed];
    pub fn name(self) -> &'static str {
        match self {
            Term::Lf => "LF",
            Term::CrLf => "CRLF",
            Term::Cr => "CR",
            Term::Mixed => "MIXED",
        }
    }
}

impl MapAst {
    /// Print with the given terminator style. `trailing`: whether the last
    /// line is terminated. `Mixed` draws a terminator per line from `rng`.
    pub fn print(&self, term: Term, trailing: bool, rng: &mut Rng) -> Vec<u8> {
        let mut out = Vec::new();
        let n = self.items.len();
        for (i, it) in self.items.iter().enumerate() {
            out.extend_from_slice(it.print().as_bytes());
            if i + 1 < n || trailing {
                let t: &[u8] = match term {
                    Term::Lf => b"\n",
                    Term::CrLf => b"\r\n",
                    Term::Cr => b"\r",
                    Term::Mixed => match rng.below(3) {
                        0 => b"\n",
                        1 => b"\r\n",
                        _ => b"\r",
                    },
                };
                out.extend_from_slice(t);
            }
        }
        out
    }

    pub fn print_lf(&self) -> Vec<u8> {
        let mut r = Rng::new(0);
        self.print(Term::Lf, true, &mut r)
    }

    /// Split into (preamble, blocks) at class lines.
    pub fn blocks(&self) -> (Vec<Item>, Vec<Vec<Item>>) {
        let mut pre = vec![];
        let mut blocks: Vec<Vec<Item>> = vec![];
        for it in &self.items {
            if matches!(it, Item::Class { .. }) {
                blocks.push(vec![it.clone()]);
            } else if let Some(b) = blocks.last_mut() {
                b.push(it.clone());
            } else {
                pre.push(it.clone());
            }
        }
        (pre, blocks)
    }

    pub fn obf_classes_distinct(&self) -> bool {
        let mut seen = std::collections::HashSet::new();
        for it in &self.items {
            if let Item::Class { obf, .. } = it {
                if !seen.insert(obf.as_str()) {
                    return false;
                }
            }
        }
        true
    }

    /// Same AST with class blocks permuted (only meaningful when obfuscated
    /// class names are distinct).
    pub fn permuted(&self, rng: &mut Rng) -> MapAst {
        let (pre, mut blocks) = self.blocks();
        rng.shuffle(&mut blocks);
        let mut items = pre;
        for b in blocks {
            items.extend(b);
        }
        MapAst { items }
    }

    /// Same AST with blank lines and noise lines inserted at random places.
    /// Noise is never inserted in a way that changes record adjacency
    /// semantics, because the library filters error items before looking at
    /// "the next record".
    pub fn with_noise(&self, rng: &mut Rng, density_pct: usize) -> MapAst {
        let mut items = Vec::with_capacity(self.items.len() * 2);
        for it in &self.items {
            while rng.chance(density_pct, 100) {
                items.push(random_noise_or_blank(rng));
            }
            items.push(it.clone());
        }
        while rng.chance(density_pct, 100) {
            items.push(random_noise_or_blank(rng));
        }
        MapAst { items }
    }

    pub fn stripped(&self) -> MapAst {
        MapAst { items: self.items.iter().filter(|i| i.is_record()).cloned().collect() }
    }

    pub fn methods(&self) -> impl Iterator<Item = &MethodEntry> {
        self.items.iter().filter_map(|i| if let Item::Method(m) = i { Some(m) } else { None })
    }
}

/// Catalogue of single lines that are malformed by the documented grammar.
/// C05 independently checks that the library reports each of them as an
/// error, so that other monitors may rely on them being skipped.
pub const NOISE_CATALOGUE: &[&str] = &[
    // missing arrow / unspaced arrow / broken arrow
    "com.example.Foo a:",
    "com.example.Foo->a:",
    "com.example.Foo - > a:",
    "com.example.Foo ->a:",
    "com.example.Foo-> a:",
    // class line without colon
    "com.example.Foo -> a",
    "com.example.Foo -> a.b",
    // indentation other than four spaces
    " void foo() -> a",
    "  void foo() -> a",
    "   void foo() -> a",
    "     void foo() -> a",
    "      void foo() -> a",
    "       void foo() -> a",
    "        void foo() -> a",
    "\tvoid foo() -> a",
    "  1:2:void foo():3:4 -> a",
    "     1:2:void foo():3:4 -> a",
    // start line without end line
    "    5:void foo() -> a",
    "    5:void foo():7 -> a",
    "    5::void foo() -> a",
    // missing return type
    "    foo() -> a",
    "    1:2:foo() -> a",
    "    foo(int) -> a",
    // members with broken arrows
    "    void foo() - > a",
    "    void foo()-> a",
    "    void foo() ->a",
    "    void foo()",
    "    void foo( -> a",
    "    int field",
    "    int field - > a",
    // bare words
    "foo",
    "foo bar",
    "foo bar baz",
    "-> a:",
    // R8's indented synthesized-marker comment (reported as an error)
    "      # {\"id\":\"com.android.tools.r8.synthesized\"}",
];

fn random_noise_or_blank(rng: &mut Rng) -> Item {
    if rng.chance(1, 3) {
        Item::Blank
    } else {
        Item::Noise(rng.pick(NOISE_CATALOGUE).to_string())
    }
}

// ------------------------------------------------------------------ pools

pub const OBF_CLASSES: &[&str] = &[
    "a", "b", "a.a", "a.b", "a$a", "ab", "a.a$b", "a.", "B", "é", "aé", "a.a.a", "a.a.b", "a.b.c",
    "b.a", "A", "a$b", "a$a$a", "c", "a.a.a.b.c$a", "aa", "a-b", "a1", "z.y.x",
    // U+1D49C (supplementary plane) vs U+FF21 (high BMP): UTF-8 byte order and UTF-16 code-unit order disagree
    "a\u{1D49C}", "a\u{FF21}",
    // a keyword obfuscation dictionary yields names that are primitive type keywords
    "int",
    "void",
    "boolean",
];

pub fn long_name(seed: usize, len: usize) -> String {
    let mut s = String::from("l");
    s.push_str(&seed.to_string());
    s.push('.');
    while s.len() < len {
        s.push((b'a' + ((s.len() * 7 + seed) % 26) as u8) as char);
    }
    s
}

pub const ORIG_CLASSES: &[&str] = &[
    "com.example.Main",
    "com.example.Main$Inner",
    "com.example.Main$Inner$Deep",
    "com.example.util.Helper",
    "R8$$SyntheticClass",
    "com.example.-$$Lambda$Main$1",
    "Dotless",
    "Dotless$In",
    "org.x.Ünïcode",
    "com.example.Other",
    "io.sentry.android.core.SentryAndroid",
    "kotlin.jvm.internal.Intrinsics",
    "$Weird",
    "p.$$Q$R",
    "M",
    "R",
];

pub const OBF_METHODS: &[&str] = &["a", "b", "aa", "<init>", "c", "<clinit>", "a$b", "\u{1F600}", "\u{FF21}"];

pub const ORIG_METHODS: &[&str] = &[
    "run", "onCreate", "<init>", "lambda$main$0", "access$100", "get", "set", "<clinit>", "invoke",
    // names whose concatenation with a neighbouring obfuscated name / argument string collides
    // with another (obfuscated, args, original) triple: (a,int,run)~(a,,intrun), (a,,arun)~(aa,,run)
    "intrun", "arun",
];

pub const ARGS: &[&str] = &[
    "",
    "int",
    "java.lang.String",
    "int,long",
    "java.lang.Object,java.lang.Object",
    "android.view.View",
    "int[],java.lang.String[]",
    // sorts before "android.view.View" + ')' when name and params are concatenated
    "android.view.View$OnClickListener",
    // mixed spelling with and without blanks: "int, long" < "int,byte" raw, but > once blanks are stripped
    "int, long",
    "int,byte",
    // parameter types that are classes of the mapping itself
    "com.example.Main",
    "com.example.Main$Inner,int",
    "com.example.util.Helper[]",
];

pub const RET_TYPES: &[&str] =
    &["void", "int", "java.lang.String", "boolean", "java.util.Map$Entry", "long[]", "a.b"];

pub const FILE_NAMES: &[&str] = &[
    "Main.kt",
    "Main.java",
    "R8$$SyntheticClass",
    "Helper.kt",
    "SourceFile",
    "Ünï.kt",
    "a b.kt",
    "x:y.kt",
    "src/main/kotlin/Foo.kt",
];

pub const HEADER_KEYS: &[&str] =
    &["compiler", "compiler_version", "min_api", "pg_map_id", "common_typos_disable", "a comment"];

// -------------------------------------------------------------- generator

#[derive(Clone, Debug)]
pub struct GenCfg {
    pub min_blocks: usize,
    pub max_blocks: usize,
    pub max_items: usize,
    /// admit out-of-domain numbers (>= 2^32-1) and empty names
    pub hostile: bool,
    /// probability (percent) that an obfuscated class name is reused
    pub dup_class_pct: usize,
    /// use the large adversarial name family (C04) instead of the small pool
    pub name_family: bool,
    /// weight of inline groups among items (percent)
    pub inline_pct: usize,
    /// percent of `# sourceFile` style headers among items
    pub srcfile_pct: usize,
    /// allow valueless `# sourceFile` header (reset)
    pub allow_reset_header: bool,
    /// long (>127 byte) names now and then
    pub long_names: bool,
    /// numbers drawn mostly from 0..=max_small
    pub max_small: u128,
    /// boundary numbers near 2^32-2 allowed
    pub big_numbers: bool,
    /// items before the first class line
    pub preamble: bool,
}

impl Default for GenCfg {
    fn default() -> Self {
        GenCfg {
            min_blocks: 1,
            max_blocks: 8,
            max_items: 12,
            hostile: false,
            dup_class_pct: 8,
            name_family: false,
            inline_pct: 20,
            srcfile_pct: 10,
            allow_reset_header: true,
            long_names: true,
            max_small: 64,
            big_numbers: true,
            preamble: true,
        }
    }
}

pub const U32MAX: u128 = u32::MAX as u128;

pub struct Gen<'r> {
    pub rng: &'r mut Rng,
    pub cfg: GenCfg,
    family: Vec<String>,
    /// original name of the class block being generated (for names that relate to it)
    cur_orig: String,
    /// obfuscated class names used so far in this file
    used_obf: Vec<String>,
    /// original name of the previous method entry
    last_orig_method: String,
}

impl<'r> Gen<'r> {
    pub fn new(rng: &'r mut Rng, cfg: GenCfg) -> Gen<'r> {
        let family = if cfg.name_family { name_family(rng) } else { vec![] };
        Gen { rng, cfg, family, cur_orig: String::new(), used_obf: vec![], last_orig_method: String::new() }
    }

    fn num(&mut self) -> u128 {
        let r = self.rng.below(100);
        if self.cfg.hostile && r < 12 {
            return *self.rng.pick(&[
                U32MAX - 1,
                U32MAX,
                U32MAX + 1,
                1u128 << 40,
                u64::MAX as u128 - 1,
                u64::MAX as u128,
                u64::MAX as u128 + 1,
                123456789012345678901234567890u128,
            ]);
        }
        if self.cfg.big_numbers && r < 16 {
            return *self.rng.pick(&[U32MAX - 2, U32MAX - 3, U32MAX - 4, 65535, 65536, 1u128 << 31]);
        }
        if r < 24 {
            return 0;
        }
        if r < 40 {
            return 1 + self.rng.below(4) as u128;
        }
        self.rng.below(self.cfg.max_small as usize + 1) as u128
    }

    fn obf_class(&mut self) -> String {
        if self.cfg.hostile && self.rng.chance(1, 40) {
            return String::new();
        }
        if self.cfg.name_family {
            return self.rng.pick(&self.family).clone();
        }
        if self.cfg.long_names && self.rng.chance(1, 25) {
            let len = if self.rng.chance(1, 12) { *self.rng.pick(&[16_383usize, 16_384, 16_385, 16_512]) } else { *self.rng.pick(&[127usize, 128, 130, 300]) };
            return long_name(self.rng.below(3), len);
        }
        self.rng.pick(OBF_CLASSES).to_string()
    }

    fn orig_class(&mut self) -> String {
        if self.cfg.hostile && self.rng.chance(1, 40) {
            return String::new();
        }
        if self.cfg.long_names && self.rng.chance(1, 40) {
            return format!("com.example.{}", long_name(7, 140));
        }
        let c = self.rng.pick(ORIG_CLASSES).to_string();
        self.spice(c)
    }

    /// Now and then a name gets a random letter from six Unicode blocks appended (every
    /// UTF-8 continuation byte 0x80..0xBF occurs, among them 0x85 and 0xA0, which are
    /// white space when a byte is misread as Latin-1).
    fn spice(&mut self, mut s: String) -> String {
        if !s.is_empty() && self.rng.chance(1, 12) {
            s.push(crate::rng::unicode_letter(self.rng));
            if self.rng.chance(1, 3) {
                s.push(*self.rng.pick(&['x', '$', '1']));
            }
        }
        s
    }

    fn file_name(&mut self) -> String {
        if self.cfg.hostile && self.rng.chance(1, 20) {
            return String::new();
        }
        self.rng.pick(FILE_NAMES).to_string()
    }

    pub fn method(&mut self) -> MethodEntry {
        let (start, end) = self.range();
        let (ostart, oend) = match self.rng.below(10) {
            0..=2 => (None, None),
            3..=5 => (Some(self.num()), None),
            6 => {
                let v = self.num();
                (Some(v), Some(v))
            }
            _ => {
                (Some(self.num()), Some(self.num()))
            }
        };
        let (ostart, oend) = if self.cfg.hostile { (ostart.map(|_| self.num()), oend.map(|_| self.num())) } else { (ostart, oend) };
        let orig_class = if self.rng.chance(1, 4) {
            // names that RELATE to other parts of the file: the enclosing class itself, a class
            // nested in it, a name used as an obfuscated class name elsewhere in the file
            let c = match self.rng.below(12) {
                0 if !self.cur_orig.is_empty() => self.cur_orig.clone(),
                1 if !self.cur_orig.is_empty() => format!("{}${}", self.cur_orig, self.rng.pick(&["Companion", "1", "Inner"])),
                2 if !self.used_obf.is_empty() => self.rng.pick(&self.used_obf).clone(),
                _ => self.orig_class(),
            };
            Some(c).filter(|c| !c.is_empty())
        } else {
            None
        };
        let orig = if self.cfg.hostile && self.rng.chance(1, 40) {
            String::new()
        } else {
            // now and then a name derived from the previous entry's name by a compiler's naming
            // scheme, or the simple name of the class it is qualified with
            let prev = self.last_orig_method.clone();
            let simple = |c: &str| c.rsplit(['.', '$']).next().unwrap_or(c).to_string();
            match self.rng.below(24) {
                0 if !prev.is_empty() && !prev.starts_with('<') => format!("lambda${prev}$0"),
                1 if !prev.is_empty() && !prev.starts_with('<') => format!("{prev}$default"),
                2 if !prev.is_empty() && !prev.starts_with('<') => format!("{prev}$lambda$1"),
                3 if orig_class.is_some() => simple(orig_class.as_deref().unwrap()),
                4 if !self.cur_orig.is_empty() => simple(&self.cur_orig),
                _ => self.rng.pick(ORIG_METHODS).to_string(),
            }
        };
        let orig = if orig.is_empty() && !self.cfg.hostile { "run".to_string() } else { orig };
        self.last_orig_method = orig.clone();
        let obf = if self.cfg.hostile && self.rng.chance(1, 40) { String::new() } else { self.rng.pick(OBF_METHODS).to_string() };
        // kept (-keep) members map onto themselves
        let orig = if self.rng.chance(1, 10) && !obf.is_empty() { obf.clone() } else { self.spice(orig) };
        let ret = self.rng.pick(RET_TYPES).to_string();
        let ret = self.spice(ret);
        MethodEntry {
            start,
            end,
            ret,
            orig_class,
            orig,
            args: self.rng.pick(ARGS).to_string(),
            ostart,
            oend,
            obf,
        }
    }

    fn range(&mut self) -> (Option<u128>, Option<u128>) {
        match self.rng.below(20) {
            0..=3 => (None, None),
            4 => (Some(0), Some(0)),
            5 => (Some(0), Some(self.num())),
            6 => (Some(self.num()), Some(0)),
            7 => {
                // inverted
                let a = 2 + self.rng.below(40) as u128;
                (Some(a + 1 + self.rng.below(5) as u128), Some(a))
            }
            8..=10 => {
                let a = self.num();
                (Some(a), Some(a))
            }
            _ => {
                let a = self.num();
                let len = match self.rng.below(4) {
                    0 => 1,
                    1 => 2,
                    2 => 2 + self.rng.below(10) as u128,
                    _ => self.rng.below(30) as u128,
                };
                let b = if self.cfg.hostile { a.saturating_add(len) } else { (a + len).min(U32MAX - 2) };
                (Some(a), Some(b))
            }
        }
    }

    /// An inline group: callee entries followed by the caller, all with the
    /// same obfuscated range and obfuscated name.
    fn inline_group(&mut self, out: &mut Vec<Item>) {
        let a = 1 + self.rng.below(60) as u128;
        let b = a + self.rng.below(6) as u128;
        let obf = self.rng.pick(OBF_METHODS).to_string();
        let n = 1 + self.rng.below(3);
        for i in 0..=n {
            let mut m = self.method();
            m.start = Some(a);
            m.end = Some(b);
            // sometimes a *different* obfuscated method shares the range
            m.obf = if self.rng.chance(1, 8) { self.rng.pick(OBF_METHODS).to_string() } else { obf.clone() };
            if i < n {
                // callee: original range, often foreign class
                let os = self.num().min(U32MAX - 10);
                m.ostart = Some(os);
                m.oend = if self.rng.chance(1, 2) { Some(os + (b - a)) } else { Some(os) };
                if self.rng.chance(1, 2) && !self.cfg.hostile {
                    m.orig_class = Some(self.orig_class());
                }
            } else {
                // caller: call-site line
                m.ostart = Some(self.num());
                m.oend = None;
            }
            out.push(Item::Method(m));
        }
    }

    /// Entries that continue each other: the next line of the same method starts exactly
    /// one line behind the previous one, in the obfuscated and in the original numbering
    /// (what a line table split into pieces looks like) — with equal spans, with spans that
    /// differ per piece but add up (3+1 obfuscated lines onto 1+3 original ones), three or
    /// more pieces in a row, now and then under another obfuscated name or with one part of
    /// the signature changed.
    fn continuation_chain(&mut self, out: &mut Vec<Item>) {
        let mut m = self.method();
        let a = 1 + self.rng.below(40) as u128;
        let os = 10 + self.rng.below(60) as u128;
        let (p, q) = (self.rng.below(4) as u128, self.rng.below(4) as u128);
        let compensating = self.rng.chance(1, 4);
        m.start = Some(a);
        m.end = Some(a + p);
        m.ostart = Some(os);
        m.oend = Some(os + if compensating { q } else { p });
        out.push(Item::Method(m.clone()));
        let n = 1 + self.rng.below(3);
        for k in 0..n {
            let mut c = m.clone();
            let span = if compensating && k == 0 { q } else if self.rng.chance(3, 4) { p } else { self.rng.below(4) as u128 };
            let ospan = if compensating && k == 0 { p } else if self.rng.chance(3, 4) { span } else { self.rng.below(4) as u128 };
            // usually adjacent; now and then overlapping the previous piece by exactly one line,
            // starting on the same line, or nested inside it
            c.start = Some(match self.rng.below(10) {
                0 => m.end.unwrap(),
                1 => m.start.unwrap(),
                _ => m.end.unwrap() + 1,
            });
            c.end = Some(c.start.unwrap() + span);
            c.ostart = Some(m.oend.unwrap_or(m.ostart.unwrap()) + 1);
            c.oend = if self.rng.chance(1, 8) { None } else { Some(c.ostart.unwrap() + ospan) };
            match self.rng.below(12) {
                0 | 1 => c.obf = self.rng.pick(OBF_METHODS).to_string(),
                2 => c.orig = self.rng.pick(ORIG_METHODS).to_string(),
                3 => c.args = self.rng.pick(ARGS).to_string(),
                4 => c.orig_class = Some(self.orig_class()).filter(|x| !x.is_empty()),
                _ => {}
            }
            out.push(Item::Method(c.clone()));
            m = c;
        }
    }

    fn member_item(&mut self, out: &mut Vec<Item>, recent: &mut Vec<MethodEntry>) {
        let r = self.rng.below(100);
        if r < self.cfg.inline_pct {
            self.inline_group(out);
        } else if r < self.cfg.inline_pct + self.cfg.srcfile_pct {
            let which = self.rng.below(10);
            if which < 6 {
                out.push(Item::SourceFileJson { name: self.file_name() });
            } else if which < 8 {
                out.push(Item::HeaderKV { key: "sourceFile".into(), value: Some(self.file_name()) });
            } else if self.cfg.allow_reset_header {
                out.push(Item::HeaderKV { key: "sourceFile".into(), value: None });
            } else {
                out.push(Item::SourceFileJson { name: self.file_name() });
            }
        } else if r < self.cfg.inline_pct + self.cfg.srcfile_pct + 6 {
            out.push(Item::Field {
                ty: self.rng.pick(RET_TYPES).to_string(),
                orig: self.rng.pick(&["mField", "value", "this$0"]).to_string(),
                obf: self.rng.pick(OBF_METHODS).to_string(),
            });
        } else if r < self.cfg.inline_pct + self.cfg.srcfile_pct + 9 {
            let key = self.rng.pick(HEADER_KEYS).to_string();
            let value = if self.rng.chance(2, 3) { Some(self.rng.pick(&["R8", "1.2.3", "21", "x"]).to_string()) } else { None };
            out.push(Item::HeaderKV { key, value });
        } else if self.rng.chance(1, 12) {
            self.continuation_chain(out);
        } else if !recent.is_empty() && self.rng.chance(1, 4) {
            // repeat an earlier entry exactly or with a different range (dedup / state leak)
            let mut m = self.rng.pick(recent).clone();
            if self.rng.chance(1, 2) {
                let (s, e) = self.range();
                m.start = s;
                m.end = e;
            }
            out.push(Item::Method(m));
        } else {
            let m = self.method();
            recent.push(m.clone());
            if recent.len() > 6 {
                recent.remove(0);
            }
            // adjacent entry of a different method with the identical range
            if self.rng.chance(1, 10) {
                let mut n = self.method();
                n.start = m.start;
                n.end = m.end;
                out.push(Item::Method(m));
                out.push(Item::Method(n));
            } else {
                out.push(Item::Method(m));
            }
        }
    }

    pub fn ast(&mut self) -> MapAst {
        let mut items = vec![];
        let mut recent: Vec<MethodEntry> = vec![];
        if self.cfg.preamble {
            let n = self.rng.below(4);
            for _ in 0..n {
                match self.rng.below(5) {
                    0 => items.push(Item::SourceFileJson { name: self.file_name() }),
                    1 => {
                        let m = self.method();
                        items.push(Item::Method(m))
                    }
                    _ => {
                        let key = self.rng.pick(HEADER_KEYS).to_string();
                        items.push(Item::HeaderKV { key, value: Some("R8".into()) })
                    }
                }
            }
        }
        let nblocks = self.rng.range(self.cfg.min_blocks, self.cfg.max_blocks);
        let mut used: Vec<String> = vec![];
        for _ in 0..nblocks {
            let obf = if !used.is_empty() && self.rng.chance(self.cfg.dup_class_pct, 100) {
                self.rng.pick(&used).clone()
            } else {
                self.obf_class()
            };
            // kept (-keep) classes map onto themselves — under a name from the obfuscated pool or
            // from the original pool; now and then an original name is a name that is used as an
            // obfuscated class name elsewhere in the file (a library obfuscated twice)
            let (orig, obf) = match self.rng.below(30) {
                0..=2 if !obf.is_empty() => (obf.clone(), obf),
                3 | 4 => {
                    let o = self.orig_class();
                    if o.is_empty() {
                        (self.orig_class(), obf)
                    } else {
                        (o.clone(), o)
                    }
                }
                5 | 6 if !used.is_empty() => (self.rng.pick(&used).clone(), obf),
                _ => (self.orig_class(), obf),
            };
            used.push(obf.clone());
            self.used_obf = used.clone();
            self.cur_orig = orig.clone();
            self.last_orig_method.clear();
            items.push(Item::Class { orig, obf });
            let n = match self.rng.below(6) {
                0 => 0,
                1 => 1,
                _ => self.rng.below(self.cfg.max_items + 1),
            };
            for _ in 0..n {
                self.member_item(&mut items, &mut recent);
            }
        }
        MapAst { items }
    }
}

/// Adversarially similar obfuscated class names for binary-search stress.
pub fn name_family(rng: &mut Rng) -> Vec<String> {
    let mut v: Vec<String> = vec![];
    let base = ["a", "a.b", "com.x", "é", "Z"];
    for b in base {
        let mut s = b.to_string();
        v.push(s.clone());
        for _ in 0..6 {
            s.push(*rng.pick(&['a', 'b', '.', '$', 'é', 'A', '0', 'z', '_']));
            if !s.ends_with(' ') {
                v.push(s.clone());
            }
        }
    }
    for i in 0..40 {
        let a = (b'a' + (i % 26) as u8) as char;
        let b = (b'a' + ((i / 2) % 26) as u8) as char;
        v.push(format!("{a}.{b}"));
        v.push(format!("{a}${b}"));
        v.push(format!("{a}{b}"));
        v.push(format!("p.q.{a}{b}"));
        v.push(format!("p.q.{a}{}", b.to_ascii_uppercase()));
    }
    v.push(long_name(1, 127));
    v.push(long_name(1, 128));
    v.push(long_name(1, 129));
    v.push(long_name(2, 300));
    v.sort();
    v.dedup();
    v
}

pub fn is_representable(ast: &MapAst) -> bool {
    let ok_num = |v: Option<u128>| v.map_or(true, |x| x < U32MAX);
    for it in &ast.items {
        match it {
            Item::Class { orig, obf } => {
                if orig.is_empty() || obf.is_empty() {
                    return false;
                }
            }
            Item::Method(m) => {
                if m.orig.is_empty() || m.obf.is_empty() {
                    return false;
                }
                if let Some(c) = &m.orig_class {
                    if c.is_empty() {
                        return false;
                    }
                }
                if !(ok_num(m.start) && ok_num(m.end) && ok_num(m.ostart) && ok_num(m.oend)) {
                    return false;
                }
            }
            Item::SourceFileJson { name } => {
                if name.is_empty() {
                    return false;
                }
            }
            Item::HeaderKV { key, value } if key == "sourceFile" => {
                if let Some(v) = value {
                    if v.trim().is_empty() {
                        return false;
                    }
                }
            }
            _ => {}
        }
    }
    true
}


/// One class whose obfuscated method `a` has `n` entries (a mix of entries
/// sharing one range, entries with distinct ranges and entries without a
/// range), plus a few ordinary members: sizes beyond any small-slice or
/// recursion-depth threshold.
pub fn huge_group_ast(rng: &mut Rng, n: usize) -> MapAst {
    let mut items = vec![Item::Class { orig: "com.example.Huge".into(), obf: "h.g".into() }];
    let shared = (10u128, 20u128);
    for i in 0..n {
        // entries without a range only appear in the last fifth, so that a line outside
        // every range is skipped by tens of thousands of consecutive entries
        let kind = if i * 5 < n * 4 { [0usize, 1, 2, 3, 4, 7, 8, 9][rng.below(8)] } else { rng.below(10) };
        let (start, end) = match kind {
            0..=4 => (Some(shared.0), Some(shared.1)),
            5..=6 => (None, None),
            _ => {
                let a = 30 + (i as u128 % 5000) * 3;
                (Some(a), Some(a + 2))
            }
        };
        let orig = if i == 0 || i + 1 == n { "edge".to_string() } else { format!("m{}", i % 7) };
        items.push(Item::Method(MethodEntry {
            start,
            end,
            ret: "void".into(),
            orig_class: if rng.chance(1, 5) { Some("com.example.Other".into()) } else { None },
            orig,
            args: rng.pick(&["", "int", "int,long"]).to_string(),
            ostart: Some(100 + i as u128),
            oend: if kind % 2 == 0 { Some(100 + i as u128 + 10) } else { None },
            obf: "a".into(),
        }));
    }
    items.push(Item::Class { orig: "com.example.Small".into(), obf: "s".into() });
    items.push(Item::Method(MethodEntry {
        start: Some(1),
        end: Some(3),
        ret: "void".into(),
        orig_class: None,
        orig: "run".into(),
        args: "".into(),
        ostart: Some(5),
        oend: Some(7),
        obf: "a".into(),
    }));
    MapAst { items }
}

/// One class whose obfuscated method `a` has `n` entries that ALL carry a line range
/// (disjoint ranges from line 10 upwards, a few inlined pairs), so that lines below 10,
/// in the gaps and beyond the last range resolve to nothing although the method has
/// dozens to hundreds of entries; plus overloads `b` without ranges and a small class.
pub fn ranged_group_ast(rng: &mut Rng, n: usize) -> MapAst {
    let mut items = vec![Item::Class { orig: "com.example.Ranged".into(), obf: "r.g".into() }];
    let mut line = 10u128;
    for i in 0..n {
        let len = rng.below(3) as u128;
        let (a, b) = (line, line + len);
        line = b + 1 + if rng.chance(1, 4) { 2 } else { 0 }; // now and then a gap
        let m = |orig: String, oc: Option<String>, os: u128| MethodEntry {
            start: Some(a),
            end: Some(b),
            ret: "void".into(),
            orig_class: oc,
            orig,
            args: ["", "int", "int,long"][i % 3].to_string(),
            ostart: Some(os),
            oend: if len > 0 { Some(os + len) } else { None },
            obf: "a".into(),
        };
        if rng.chance(1, 6) {
            items.push(Item::Method(m(format!("inl{}", i % 5), Some("com.example.Other".into()), 500 + i as u128)));
        }
        items.push(Item::Method(m(format!("m{}", i % 7), None, 100 + 3 * i as u128)));
    }
    // a second large method `c`: inline chains of two and three frames at various positions
    let mut line = 5u128;
    for i in 0..(n / 2).max(8) {
        let (a, b) = (line, line + 1);
        line = b + 1;
        let depth = [1usize, 1, 2, 3, 1][i % 5];
        for d in 0..depth {
            items.push(Item::Method(MethodEntry {
                start: Some(a),
                end: Some(b),
                ret: "void".into(),
                orig_class: if d + 1 < depth { Some(format!("com.example.Inl{d}")) } else { None },
                orig: if d + 1 < depth { format!("callee{d}") } else { format!("caller{}", i % 4) },
                args: "".into(),
                ostart: Some(900 + 5 * i as u128 + d as u128),
                oend: if d + 1 < depth { Some(901 + 5 * i as u128 + d as u128) } else { None },
                obf: "c".into(),
            }));
        }
    }
    for i in 0..3 {
        items.push(Item::Method(MethodEntry {
            start: None,
            end: None,
            ret: "int".into(),
            orig_class: None,
            orig: format!("over{i}"),
            args: ["", "int", "long"][i].to_string(),
            ostart: None,
            oend: None,
            obf: "b".into(),
        }));
    }
    items.push(Item::Class { orig: "com.example.Small".into(), obf: "s".into() });
    items.push(Item::Method(MethodEntry {
        start: Some(1),
        end: Some(3),
        ret: "void".into(),
        orig_class: None,
        orig: "run".into(),
        args: "".into(),
        ostart: Some(5),
        oend: Some(7),
        obf: "a".into(),
    }));
    MapAst { items }
}

/// Classes and methods whose names run into each other when written without a separator:
/// ("k.ab", "c") and ("k.a", "bc"), ("k.a.b", "cd") and ("k.a.bc", "d"), ("k$x", "y") and
/// ("k", "$xy") — each method with `n` entries; of every colliding pair one method is
/// unambiguous (all entries agree on the original name), the other is not.
pub fn concat_collision_ast(n: usize) -> MapAst {
    let pairs: [(&str, &str, bool); 6] =
        [("k.ab", "c", true), ("k.a", "bc", false), ("k.a.b", "cd", false), ("k.a.bc", "d", true), ("k$x", "y", true), ("k", "$xy", false)];
    let mut items = vec![];
    for (ci, (class, method, unambiguous)) in pairs.iter().enumerate() {
        items.push(Item::Class { orig: format!("com.example.Coll{ci}"), obf: class.to_string() });
        for i in 0..n {
            items.push(Item::Method(MethodEntry {
                start: Some(1 + 2 * i as u128),
                end: Some(2 + 2 * i as u128),
                ret: "void".into(),
                orig_class: None,
                orig: if *unambiguous || i + 1 < n { format!("same{ci}") } else { "odd".into() },
                args: "".into(),
                ostart: Some(100 + i as u128),
                oend: None,
                obf: method.to_string(),
            }));
        }
        // a second, small method so that the class has more than one group
        items.push(Item::Method(MethodEntry {
            start: None,
            end: None,
            ret: "int".into(),
            orig_class: None,
            orig: "other".into(),
            args: "int".into(),
            ostart: None,
            oend: None,
            obf: "zz".into(),
        }));
    }
    MapAst { items }
}

/// One class per requested size: `size` ranged entries under the obfuscated method `a`
/// — in every fifth class one of them with a reversed range —, followed by `size % 4` entries under
/// `z`. Group sizes and the distance from a group to the end of its class sweep through
/// every value, so that a search strategy which only goes wrong at particular sizes
/// (62 + 2^k, 2^k ± 1, the switch-over point between two strategies) meets them.
pub fn size_sweep_ast(sizes: &[usize]) -> MapAst {
    let mut items = vec![];
    for &n in sizes {
        items.push(Item::Class { orig: format!("com.example.sweep.S{n}"), obf: format!("sw.c{n}") });
        // every fifth class has, in the middle of its ascending table, one entry whose range is
        // reversed (start well above end) without breaking the ascending order of starts and ends
        let rev = if n % 5 == 0 && n >= 3 { Some(n / 2) } else { None };
        for i in 0..n {
            let shift = if rev.map_or(false, |r| i > r) { 20 } else { 0 };
            // classes with n % 5 == 1: every range ends on the line the next one starts with
            let touch = if n % 5 == 1 { 1 } else { 0 };
            let (st, en) = if rev == Some(i) { (2 * i as u128 + 20, 2 * i as u128) } else { (1 + 2 * i as u128 + shift, 2 + 2 * i as u128 + shift + touch) };
            items.push(Item::Method(MethodEntry {
                start: Some(st),
                end: Some(en),
                ret: "void".into(),
                orig_class: None,
                orig: format!("m{}", i % 3),
                args: ["", "int"][i % 2].to_string(),
                ostart: Some(100 + 3 * i as u128),
                oend: Some(101 + 3 * i as u128),
                obf: "a".into(),
            }));
        }
        for j in 0..(n % 4) {
            items.push(Item::Method(MethodEntry {
                start: None,
                end: None,
                ret: "int".into(),
                orig_class: None,
                orig: format!("tail{j}"),
                args: "".into(),
                ostart: None,
                oend: None,
                obf: "z".into(),
            }));
        }
    }
    MapAst { items }
}
