//! Fault-injecting `io::Write` sinks. Each records every call as an event
//! `(index, offered, outcome)`; the C15 oracle reads that log.

use std::io::{self, Write};

#[derive(Clone, Copy, Debug, PartialEq, Eq)]
pub enum Schedule {
    /// accept everything (counting pass)
    Full,
    /// accept at most k bytes per call
    Chunk(usize),
    /// call i accepts only half (at least 1, fewer than offered when possible)
    ShortOnce(usize),
    /// call i fails with a non-retryable error
    FailAt(usize),
    /// call i returns ErrorKind::Interrupted once
    InterruptedAt(usize),
    /// call i returns Ok(0) forever from there on (sink is full)
    ZeroAt(usize),
    /// call i accepts exactly `take` bytes (fewer than offered when possible, at least 1)
    ShortTake(usize, usize),
    /// call i accepts `take` bytes and the very next call returns ErrorKind::Interrupted
    ShortThenInterrupted(usize, usize),
    /// calls i and i+1 both accept only `take` bytes
    ShortThenShort(usize, usize),
    /// calls i and i+1 both return ErrorKind::Interrupted
    InterruptedTwice(usize),
    /// at most k bytes per call, and every `period`-th call is interrupted instead
    ChunkWithInterrupts(usize, usize),
}

#[derive(Clone, Copy, Debug, PartialEq, Eq)]
pub enum Outcome {
    Accepted(usize),
    Failed,
    Interrupted,
}

#[derive(Clone, Copy, Debug)]
pub struct Event {
    pub index: usize,
    pub offered: usize,
    pub outcome: Outcome,
    /// offset (in accepted bytes) at which the call started
    pub pos: usize,
}

pub struct FaultSink {
    /// when set, `write_vectored` gathers bytes across the offered buffers (as block or
    /// ring-buffer style writers do) instead of forwarding only the first buffer
    pub gather_vectored: bool,
    pub vectored_calls: usize,
    pub schedule: Schedule,
    pub accepted: Vec<u8>,
    pub events: Vec<Event>,
    pub calls: usize,
    pub fault_hit: bool,
    pub flushes: usize,
    /// once more than this many bytes have been accepted every call fails hard: a writer
    /// that spins (re-sending data after every interruption, say) is cut off with an error
    /// instead of running until a watchdog fires
    pub limit: usize,
    /// kind of the error a failing call returns (a writer must propagate every kind but
    /// `Interrupted`, not only the one it was tried with)
    pub fail_kind: io::ErrorKind,
}

pub const FAIL_KINDS: &[io::ErrorKind] = &[
    io::ErrorKind::Other,
    io::ErrorKind::BrokenPipe,
    io::ErrorKind::WriteZero,
    io::ErrorKind::UnexpectedEof,
    io::ErrorKind::WouldBlock,
    io::ErrorKind::TimedOut,
    io::ErrorKind::ConnectionReset,
    io::ErrorKind::PermissionDenied,
    io::ErrorKind::OutOfMemory,
    io::ErrorKind::InvalidData,
    io::ErrorKind::Unsupported,
];

impl FaultSink {
    pub fn new_vectored(schedule: Schedule) -> FaultSink {
        let mut s = FaultSink::new(schedule);
        s.gather_vectored = true;
        s
    }
    pub fn new(schedule: Schedule) -> FaultSink {
        FaultSink { gather_vectored: false, vectored_calls: 0, schedule, accepted: vec![], events: vec![], calls: 0, fault_hit: false, flushes: 0, limit: usize::MAX, fail_kind: io::ErrorKind::Other }
    }
    pub fn nonretryable_failures(&self) -> usize {
        self.events.iter().filter(|e| e.outcome == Outcome::Failed).count()
    }
}

impl Write for FaultSink {
    fn write(&mut self, buf: &[u8]) -> io::Result<usize> {
        let i = self.calls;
        self.calls += 1;
        let pos = self.accepted.len();
        let mut take = buf.len();
        let mut outcome = None;
        if self.accepted.len() > self.limit || self.calls > self.limit.saturating_mul(4) {
            self.events.push(Event { index: i, offered: buf.len(), outcome: Outcome::Failed, pos });
            return Err(io::Error::new(io::ErrorKind::Other, "sink limit exceeded: the writer does not terminate"));
        }
        match self.schedule {
            Schedule::Full => {}
            Schedule::Chunk(k) => {
                if buf.len() > k {
                    self.fault_hit = true;
                }
                take = take.min(k);
            }
            Schedule::ShortOnce(at) => {
                if i == at && buf.len() >= 2 {
                    take = (buf.len() / 2).max(1);
                    self.fault_hit = true;
                }
            }
            Schedule::FailAt(at) => {
                if i == at {
                    outcome = Some(Outcome::Failed);
                    self.fault_hit = true;
                }
            }
            Schedule::InterruptedAt(at) => {
                if i == at {
                    outcome = Some(Outcome::Interrupted);
                    self.fault_hit = true;
                }
            }
            Schedule::ShortTake(at, t) => {
                if i == at && buf.len() >= 2 {
                    take = t.clamp(1, buf.len() - 1);
                    self.fault_hit = true;
                }
            }
            Schedule::ShortThenInterrupted(at, t) => {
                if i == at && buf.len() >= 2 {
                    take = t.clamp(1, buf.len() - 1);
                    self.fault_hit = true;
                } else if i == at + 1 {
                    outcome = Some(Outcome::Interrupted);
                    self.fault_hit = true;
                }
            }
            Schedule::ShortThenShort(at, t) => {
                if (i == at || i == at + 1) && buf.len() >= 2 {
                    take = t.clamp(1, buf.len() - 1);
                    self.fault_hit = true;
                }
            }
            Schedule::InterruptedTwice(at) => {
                if i == at || i == at + 1 {
                    outcome = Some(Outcome::Interrupted);
                    self.fault_hit = true;
                }
            }
            Schedule::ChunkWithInterrupts(k, period) => {
                if period > 0 && i % period == period - 1 {
                    outcome = Some(Outcome::Interrupted);
                    self.fault_hit = true;
                } else {
                    if buf.len() > k {
                        self.fault_hit = true;
                    }
                    take = take.min(k);
                }
            }
            Schedule::ZeroAt(at) => {
                if i >= at && !buf.is_empty() {
                    take = 0;
                    self.fault_hit = true;
                    if i >= at + 1000 {
                        // a caller spinning on Ok(0) is cut off with a hard error
                        outcome = Some(Outcome::Failed);
                    }
                }
            }
        }
        match outcome {
            Some(Outcome::Failed) => {
                self.events.push(Event { index: i, offered: buf.len(), outcome: Outcome::Failed, pos });
                Err(io::Error::new(self.fail_kind, "injected sink failure"))
            }
            Some(Outcome::Interrupted) => {
                self.events.push(Event { index: i, offered: buf.len(), outcome: Outcome::Interrupted, pos });
                Err(io::Error::new(io::ErrorKind::Interrupted, "injected interruption"))
            }
            _ => {
                self.accepted.extend_from_slice(&buf[..take]);
                self.events.push(Event { index: i, offered: buf.len(), outcome: Outcome::Accepted(take), pos });
                Ok(take)
            }
        }
    }
    fn write_vectored(&mut self, bufs: &[io::IoSlice<'_>]) -> io::Result<usize> {
        self.vectored_calls += 1;
        if !self.gather_vectored {
            // std's default: forward the first non-empty buffer
            let buf = bufs.iter().find(|b| !b.is_empty()).map_or(&[][..], |b| &**b);
            return self.write(buf);
        }
        // gather at most 4 KiB per call (keeps the cost linear for byte-at-a-time schedules)
        let all: Vec<u8> = bufs.iter().flat_map(|b| b.iter().copied()).take(4096).collect();
        self.write(&all)
    }
    fn flush(&mut self) -> io::Result<()> {
        self.flushes += 1;
        Ok(())
    }
}
