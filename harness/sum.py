import sys,json,collections
sigs=collections.Counter()
first={}
for l in sys.stdin:
    try: j=json.loads(l)
    except Exception: print("RAW",l[:300]); continue
    if j['type']=='violation':
        sigs[j['signature']]+=1
        first.setdefault(j['signature'],j)
    else:
        print({k:v for k,v in j.items() if k not in('samples',)})
for s,n in sigs.most_common(40): print(n,s)
if len(sys.argv)>1:
    for s,j in list(first.items())[:int(sys.argv[1])]:
        print('----',s); print(json.dumps(j['detail'],ensure_ascii=False,indent=1)[:3000])
