//! Shared pieces of the property runners.

use crate::api::*;
use crate::report::{text_json, Ctx, Reporter};
use pgvcore::ast::{MapAst, Term};
use pgvcore::model::{MFrame, Model};
use pgvcore::rng::Rng;
use pgvcore::traces::Names;
use pgvcore::util::{trap, Fp, Json, PanicInfo};

/// Run one case under the panic trap. A panic located in the harness is a
/// harness bug: the process exits 2 (inconclusive). A panic located in the
/// library (or std/watto called from it) is reported as a violation by the
/// caller through the returned info.
pub fn guarded<R>(f: impl FnOnce() -> R) -> Result<R, PanicInfo> {
    match trap(f) {
        Ok(r) => Ok(r),
        Err(p) => {
            if p.in_target() {
                Err(p)
            } else {
                eprintln!("HARNESS-PANIC at {}: {}", p.location(), p.msg);
                std::process::exit(2);
            }
        }
    }
}

pub fn panic_violation(rep: &mut Reporter, case: u64, monitor: &str, p: &PanicInfo, ctx_detail: Json) {
    let mut d = Json::obj();
    d.set("panic_location", Json::s(p.location()));
    d.set("panic_message", Json::s(p.msg.clone()));
    d.set("context", ctx_detail);
    // signature: file + message class (numbers stripped) — stable across inputs
    let msg_class: String = p.msg.chars().filter(|c| !c.is_ascii_digit()).take(60).collect();
    let sig = format!("panic {}:{} {}", short_file(&p.file), p.line, msg_class.trim());
    rep.violation(case, monitor, &sig, d);
}

pub fn short_file(f: &str) -> String {
    match f.find("/src/") {
        Some(i) => f[i + 1..].to_string(),
        None => f.to_string(),
    }
}

pub struct Variant {
    pub name: String,
    pub text: Vec<u8>,
}

/// Printing variants of one AST: LF, one other terminator style, noise,
/// block permutation (when obfuscated class names are distinct).
pub fn variants(ast: &MapAst, rng: &mut Rng, all_terms: bool, permute: bool) -> Vec<Variant> {
    let mut v = vec![];
    v.push(Variant { name: "LF".into(), text: ast.print(Term::Lf, true, rng) });
    let terms: Vec<Term> = if all_terms { vec![Term::CrLf, Term::Cr, Term::Mixed] } else { vec![*rng.pick(&[Term::CrLf, Term::Cr, Term::Mixed])] };
    for t in terms {
        let trailing = rng.chance(2, 3);
        v.push(Variant { name: format!("{}{}", t.name(), if trailing { "" } else { "-noeol" }), text: ast.print(t, trailing, rng) });
    }
    let noisy = ast.with_noise(rng, 25);
    let t = *rng.pick(&Term::ALL);
    v.push(Variant { name: format!("noise-{}", t.name()), text: noisy.print(t, rng.chance(1, 2), rng) });
    if permute && ast.obf_classes_distinct() {
        let p = ast.permuted(rng);
        v.push(Variant { name: "permuted".into(), text: p.print(Term::Lf, true, rng) });
    }
    v
}

pub fn frames_equal_model(got: &[NFrame<'_>], exp: &[MFrame<'_>]) -> bool {
    got.len() == exp.len() && got.iter().zip(exp).all(|(g, e)| g.eq_model(e))
}

pub fn show_frames(got: &[NFrame<'_>]) -> Json {
    Json::Arr(got.iter().map(|f| Json::s(f.show())).collect())
}
pub fn show_mframes(exp: &[MFrame<'_>]) -> Json {
    Json::Arr(exp.iter().map(|f| Json::s(show_mframe(f))).collect())
}

pub fn query_json(class: &str, method: &str, line: u64, file: Option<&str>, params: Option<&str>) -> Json {
    let mut q = Json::obj();
    q.set("class", Json::s(class));
    q.set("method", Json::s(method));
    q.set("line", Json::i(line));
    q.set("file", file.map(Json::s).unwrap_or(Json::Null));
    q.set("params", params.map(Json::s).unwrap_or(Json::Null));
    q
}

pub fn mapping_detail(text: &[u8], variant: &str) -> Json {
    let mut d = Json::obj();
    d.set("variant", Json::s(variant));
    d.set("mapping", text_json(text));
    d
}

/// Plan of line-based queries over the complete universe of a file: for
/// (class, method) pairs that have entries every line of the universe is
/// asked (file present on odd positions, absent on even, both on a few);
/// for pairs without entries only three lines.
pub fn for_each_line_query<'a>(
    model: &Model<'a>,
    names: &'a Names,
    mut f: impl FnMut(&'a str, &'a str, u64, Option<&'a str>),
) {
    let file0: &'a str = names.files[0].as_str();
    for c in &names.classes {
        let blk = model.blocks.get(c.as_str());
        for m in &names.methods {
            let has = blk.map_or(false, |b| b.entries.iter().any(|e| e.m.obf == *m));
            if has {
                for (i, l) in names.lines.iter().enumerate() {
                    if i % 2 == 0 {
                        f(c, m, *l, None);
                    } else {
                        f(c, m, *l, Some(file0));
                    }
                    if i % 7 == 0 {
                        f(c, m, *l, if i % 2 == 0 { Some(file0) } else { None });
                    }
                }
            } else {
                f(c, m, 0, None);
                f(c, m, 1, Some(file0));
                f(c, m, u64::MAX, None);
            }
        }
    }
}

pub fn for_each_params_query<'a>(names: &'a Names, mut f: impl FnMut(&'a str, &'a str, &'a str)) {
    for c in &names.classes {
        for m in &names.methods {
            for p in &names.args {
                f(c, m, p);
            }
        }
    }
}

pub fn ast_fp(text: &[u8]) -> u64 {
    Fp::new().bytes(text).get()
}

pub fn q_fp(base: u64, class: &str, method: &str, line: u64, file: bool, params: Option<&str>) -> u64 {
    let mut f = Fp(base).str(class).str(method).u64(line).u64(file as u64);
    if let Some(p) = params {
        f = f.str(p).u64(7);
    }
    f.get()
}

pub fn ctx_rng(ctx: &Ctx, case: u64) -> Rng {
    ctx.note_case(case);
    Rng::new(ctx.case_seed(case))
}

/// Query strings served out of one fixed allocation: consecutive queries get strings at
/// the same addresses (what a caller does who reads traces into a reused line buffer).
/// An answer may depend on the characters of a query only. The returned reference is
/// valid until the next `put` into the same slot; callers compare and drop every answer
/// before they ask the next question.
pub struct ReusedQuery {
    mem: Box<std::cell::UnsafeCell<[u8; ReusedQuery::SLOT * 4]>>,
}

impl ReusedQuery {
    pub const SLOT: usize = 1024;
    pub fn new() -> ReusedQuery {
        ReusedQuery { mem: Box::new(std::cell::UnsafeCell::new([0u8; ReusedQuery::SLOT * 4])) }
    }
    pub fn fits(s: &str) -> bool {
        s.len() <= ReusedQuery::SLOT
    }
    pub fn put<'x>(&self, slot: usize, s: &str) -> &'x str {
        assert!(slot < 4 && s.len() <= ReusedQuery::SLOT);
        // SAFETY: writes stay inside the slot; the bytes written are a copy of a `str`;
        // no reference handed out earlier for this slot is used after this write.
        unsafe {
            let base = (self.mem.get() as *mut u8).add(slot * ReusedQuery::SLOT);
            std::ptr::copy_nonoverlapping(s.as_ptr(), base, s.len());
            std::str::from_utf8_unchecked(std::slice::from_raw_parts(base, s.len()))
        }
    }
}
