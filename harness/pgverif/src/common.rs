//! Shared pieces of the property runners.

use crate::api::*;
use crate::cur;
use crate::report::{text_json, Ctx, Reporter};
use pgvcore::ast::{MapAst, Term};
use pgvcore::model::{MFrame, Model};
use pgvcore::rng::Rng;
use pgvcore::traces::Names;
use pgvcore::util::{trap, Fp, Json, PanicInfo};

/// Run one case under the panic trap. A panic located in the harness is a
/// harness bug: the process exits 2 (inconclusive). A panic located in the
/// library (or std/watto called from it) is reported as a violation by the
/// caller through the returned info.
pub fn guarded<R>(f: impl FnOnce() -> R) -> Result<R, PanicInfo> {
    match trap(f) {
        Ok(r) => Ok(r),
        Err(p) => {
            if p.in_target() {
                Err(p)
            } else {
                eprintln!("HARNESS-PANIC at {}: {}", p.location(), p.msg);
                std::process::exit(2);
            }
        }
    }
}

pub fn panic_violation(rep: &mut Reporter, case: u64, monitor: &str, p: &PanicInfo, ctx_detail: Json) {
    let mut d = Json::obj();
    d.set("panic_location", Json::s(p.location()));
    d.set("panic_message", Json::s(p.msg.clone()));
    d.set("context", ctx_detail);
    // signature: file + message class (numbers stripped) — stable across inputs
    let msg_class: String = p.msg.chars().filter(|c| !c.is_ascii_digit()).take(60).collect();
    let sig = format!("panic {}:{} {}", short_file(&p.file), p.line, msg_class.trim());
    rep.violation(case, monitor, &sig, d);
}

pub fn short_file(f: &str) -> String {
    match f.find("/src/") {
        Some(i) => f[i + 1..].to_string(),
        None => f.to_string(),
    }
}

pub struct Variant {
    pub name: String,
    pub text: Vec<u8>,
}

/// Printing variants of one AST: LF, one other terminator style, noise,
/// block permutation (when obfuscated class names are distinct).
pub fn variants(ast: &MapAst, rng: &mut Rng, all_terms: bool, permute: bool) -> Vec<Variant> {
    let mut v = vec![];
    v.push(Variant { name: "LF".into(), text: ast.print(Term::Lf, true, rng) });
    let terms: Vec<Term> = if all_terms { vec![Term::CrLf, Term::Cr, Term::Mixed] } else { vec![*rng.pick(&[Term::CrLf, Term::Cr, Term::Mixed])] };
    for t in terms {
        let trailing = rng.chance(2, 3);
        v.push(Variant { name: format!("{}{}", t.name(), if trailing { "" } else { "-noeol" }), text: ast.print(t, trailing, rng) });
    }
    let noisy = ast.with_noise(rng, 25);
    let t = *rng.pick(&Term::ALL);
    v.push(Variant { name: format!("noise-{}", t.name()), text: noisy.print(t, rng.chance(1, 2), rng) });
    if permute && ast.obf_classes_distinct() {
        let p = ast.permuted(rng);
        v.push(Variant { name: "permuted".into(), text: p.print(Term::Lf, true, rng) });
    }
    v
}

pub fn frames_equal_model(got: &[NFrame<'_>], exp: &[MFrame<'_>]) -> bool {
    got.len() == exp.len() && got.iter().zip(exp).all(|(g, e)| g.eq_model(e))
}

pub fn show_frames(got: &[NFrame<'_>]) -> Json {
    Json::Arr(got.iter().map(|f| Json::s(f.show())).collect())
}
pub fn show_mframes(exp: &[MFrame<'_>]) -> Json {
    Json::Arr(exp.iter().map(|f| Json::s(show_mframe(f))).collect())
}

pub fn query_json(class: &str, method: &str, line: u64, file: Option<&str>, params: Option<&str>) -> Json {
    let mut q = Json::obj();
    q.set("class", Json::s(class));
    q.set("method", Json::s(method));
    q.set("line", Json::i(line));
    q.set("file", file.map(Json::s).unwrap_or(Json::Null));
    q.set("params", params.map(Json::s).unwrap_or(Json::Null));
    q
}

pub fn mapping_detail(text: &[u8], variant: &str) -> Json {
    let mut d = Json::obj();
    d.set("variant", Json::s(variant));
    d.set("mapping", text_json(text));
    d
}

/// Plan of line-based queries over the complete universe of a file: for
/// (class, method) pairs that have entries every line of the universe is
/// asked (file present on odd positions, absent on even, both on a few);
/// for pairs without entries only three lines.
pub fn for_each_line_query<'a>(
    model: &Model<'a>,
    names: &'a Names,
    mut f: impl FnMut(&'a str, &'a str, u64, Option<&'a str>),
) {
    let file0: &'a str = names.files[0].as_str();
    for c in &names.classes {
        let blk = model.blocks.get(c.as_str());
        for m in &names.methods {
            let has = blk.map_or(false, |b| b.entries.iter().any(|e| e.m.obf == *m));
            if has {
                for (i, l) in names.lines.iter().enumerate() {
                    if i % 2 == 0 {
                        f(c, m, *l, None);
                    } else {
                        f(c, m, *l, Some(file0));
                    }
                    if i % 7 == 0 {
                        f(c, m, *l, if i % 2 == 0 { Some(file0) } else { None });
                    }
                }
                // a few lines with file names derived from the class name (present in the universe)
                for (k, cf) in pgvcore::traces::class_files(c).iter().enumerate() {
                    if let Some(stored) = names.files.iter().find(|x| *x == cf) {
                        for l in names.lines.iter().skip(k).step_by(5).take(12) {
                            f(c, m, *l, Some(stored.as_str()));
                        }
                    }
                }
            } else {
                f(c, m, 0, None);
                f(c, m, 1, Some(file0));
                f(c, m, u64::MAX, None);
            }
        }
    }
}

pub fn for_each_params_query<'a>(names: &'a Names, mut f: impl FnMut(&'a str, &'a str, &'a str)) {
    for c in &names.classes {
        for m in &names.methods {
            for p in &names.args {
                f(c, m, p);
            }
        }
    }
}

pub fn ast_fp(text: &[u8]) -> u64 {
    Fp::new().bytes(text).get()
}

pub fn q_fp(base: u64, class: &str, method: &str, line: u64, file: bool, params: Option<&str>) -> u64 {
    let mut f = Fp(base).str(class).str(method).u64(line).u64(file as u64);
    if let Some(p) = params {
        f = f.str(p).u64(7);
    }
    f.get()
}

pub fn ctx_rng(ctx: &Ctx, case: u64) -> Rng {
    ctx.note_case(case);
    Rng::new(ctx.case_seed(case))
}

/// Query strings served out of one fixed allocation: consecutive queries get strings at
/// the same addresses (what a caller does who reads traces into a reused line buffer).
/// An answer may depend on the characters of a query only. The returned reference is
/// valid until the next `put` into the same slot; callers compare and drop every answer
/// before they ask the next question.
pub struct ReusedQuery {
    mem: Box<std::cell::UnsafeCell<[u8; ReusedQuery::SLOT * 4]>>,
}

impl ReusedQuery {
    pub const SLOT: usize = 1024;
    pub fn new() -> ReusedQuery {
        ReusedQuery { mem: Box::new(std::cell::UnsafeCell::new([0u8; ReusedQuery::SLOT * 4])) }
    }
    pub fn fits(s: &str) -> bool {
        s.len() <= ReusedQuery::SLOT
    }
    pub fn put<'x>(&self, slot: usize, s: &str) -> &'x str {
        assert!(slot < 4 && s.len() <= ReusedQuery::SLOT);
        // SAFETY: writes stay inside the slot; the bytes written are a copy of a `str`;
        // no reference handed out earlier for this slot is used after this write.
        unsafe {
            let base = (self.mem.get() as *mut u8).add(slot * ReusedQuery::SLOT);
            std::ptr::copy_nonoverlapping(s.as_ptr(), base, s.len());
            std::str::from_utf8_unchecked(std::slice::from_raw_parts(base, s.len()))
        }
    }
}

pub const SWEEP_CASE: u64 = u64::MAX - 40;

/// The group-size sweep (see `size_sweep_ast`): every class is asked for its method, a few
/// lines and both parameter strings through mapper and cache; answers must be equal and
/// nothing may panic. Sizes are spread over the shards.
pub fn size_sweep(ctx: &Ctx, rep: &mut Reporter, prop_monitor: &str) {
    let mut sizes: Vec<usize> = (1..=330).filter(|n| (*n as u64) % ctx.nshards == ctx.shard % ctx.nshards).collect();
    for base in [574usize, 1086] {
        for d in 0..5 {
            let n = base - 2 + d;
            if (n as u64) % ctx.nshards == ctx.shard % ctx.nshards {
                sizes.push(n);
            }
        }
    }
    if ctx.slow() {
        sizes.retain(|n| [66usize, 70, 17, 33].contains(n));
    }
    if sizes.is_empty() {
        return;
    }
    ctx.note_case(SWEEP_CASE);
    let ast = pgvcore::ast::size_sweep_ast(&sizes);
    let text = ast.print_lf();
    let r = guarded(|| {
        let mp = cur::mapper(&text, true);
        let bytes = cur::write_cache(&text).expect("write to Vec");
        let buf = pgvcore::util::AlignedBuf::from_bytes(&bytes);
        let cache = cur::parse_cache(buf.as_slice()).expect("own cache parses");
        let class_names: Vec<String> = sizes.iter().map(|n| format!("sw.c{n}")).collect();
        let (mut a, mut b) = (vec![], vec![]);
        for (n, c) in sizes.iter().zip(&class_names) {
            let c: &str = c;
            rep.count("evaluations", 1);
            rep.count("size_sweep_groups", 1);
            let mut differ = mp.method(c, "a") != cache.method(c, "a") || mp.method(c, "z") != cache.method(c, "z");
            for l in [0usize, 1, 2, *n, *n + 1, *n + 7, *n + 19, *n + 21, 2 * *n - 1, 2 * *n, 2 * *n + 1, 2 * *n + 21, usize::MAX] {
                mp.frames(c, "a", l, None, None, &mut a);
                cache.frames(c, "a", l, None, None, &mut b);
                differ |= a != b;
                // SAFETY of the comparison: both vectors borrow from `c`, `text` and `buf`, all alive here
            }
            for p in ["", "int", "long"] {
                mp.frames(c, "a", 0, None, Some(p), &mut a);
                cache.frames(c, "a", 0, None, Some(p), &mut b);
                differ |= a != b;
            }
            a.clear();
            b.clear();
            if differ {
                let mut d = Json::obj();
                d.set("group_size", Json::i(*n as u64));
                d.set("trailing_entries", Json::i((*n % 4) as u64));
                rep.violation(SWEEP_CASE, prop_monitor, "group-size sweep: mapper and cache answer differently for a method group of a particular size", d);
            }
        }
    });
    if let Err(p) = r {
        let mut d = Json::obj();
        d.set("mapping", Json::s(format!("size_sweep_ast({sizes:?})")));
        panic_violation(rep, SWEEP_CASE, "panic", &p, d);
    }
}

/// A small mapping whose strings occur in no generated mapping: written (into a failing
/// sink) BEFORE the mapping under test, it shows whether a failed write of one mapping
/// leaves anything behind that the next write of ANOTHER mapping picks up.
pub const OTHER_MAPPING: &[u8] = b"org.other.Distinct -> q.z:\n# {\"id\":\"sourceFile\",\"fileName\":\"DistinctOther.kt\"}\n    1:2:void distinctiveOtherMethod(org.other.Param):30:31 -> zzq\n    3:3:void org.other.Inl.inlined():7:7 -> zzr\n    3:3:void caller():9 -> zzr\n";

/// One long-lived, 8-byte aligned region per thread into which consecutive cache files are
/// copied, so that DIFFERENT files are parsed at the SAME address one after the other (a
/// recycled buffer, a buffer pool, an allocator handing back the block just freed). The
/// slice handed out is valid until the next `load` on the same thread; callers drop every
/// handle parsed from it before they load the next file.
pub struct Arena {
    words: std::cell::UnsafeCell<Vec<u64>>,
}

impl Arena {
    pub fn new() -> Arena {
        Arena { words: std::cell::UnsafeCell::new(vec![0u64; 1 << 16]) }
    }
    pub fn load<'x>(&self, bytes: &[u8]) -> &'x [u8] {
        // SAFETY: single-threaded use per instance (thread-local); the region is only
        // reallocated when a file does not fit, and no slice of an earlier load is used after.
        unsafe {
            let w = &mut *self.words.get();
            let need = (bytes.len() + 7) / 8 + 1;
            if w.len() < need {
                *w = vec![0u64; need.next_power_of_two()];
            }
            let p = w.as_mut_ptr() as *mut u8;
            std::ptr::copy_nonoverlapping(bytes.as_ptr(), p, bytes.len());
            std::slice::from_raw_parts(p, bytes.len())
        }
    }
}

thread_local! {
    pub static ARENA: Arena = Arena::new();
}
