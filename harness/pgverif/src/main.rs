//! pgverif — runtime-monitoring workers for getsentry/rust-proguard.
#[macro_use]
mod api;
mod canary;
mod common;
mod diffmon;
mod universe;
mod props;
mod report;

adapter!(cur, proguard);
adapter!(pin, proguard_pinned);

use pgvcore::util::Json;
use report::{Ctx, Reporter, Tier};

fn usage() -> ! {
    eprintln!("usage: pgverif selftest | run <ID> --tier quick|thorough --seed N --shard I --nshards N --cases K [--only-case C] [--variant V] [--fp-out PATH]");
    std::process::exit(2);
}

fn main() {
    let args: Vec<String> = std::env::args().collect();
    if args.len() < 2 {
        usage();
    }
    match args[1].as_str() {
        "selftest" => match pgvcore::selftest(args.get(2).map_or(false, |a| a == "light")) {
            Ok(()) => println!("selftest ok"),
            Err(e) => {
                eprintln!("SELFTEST-FAILED: {e}");
                std::process::exit(2);
            }
        },
        "canary" => {
            let k = args.get(2).cloned().unwrap_or_default();
            std::process::exit(canary::run(&k));
        }
        "merge-fp" => {
            // exact union of per-shard fingerprint files (little-endian u64s)
            let mut set = std::collections::HashSet::new();
            for f in &args[2..] {
                if let Ok(b) = std::fs::read(f) {
                    for c in b.chunks_exact(8) {
                        set.insert(u64::from_le_bytes([c[0], c[1], c[2], c[3], c[4], c[5], c[6], c[7]]));
                    }
                }
            }
            println!("{}", set.len());
        }
        "run" => {
            if args.len() < 3 {
                usage();
            }
            let mut ctx = Ctx {
                prop: args[2].clone(),
                tier: Tier::Quick,
                seed: 0,
                shard: 0,
                nshards: 1,
                cases: 10,
                only_case: None,
                variant: "native".into(),
                fp_out: None,
                progress: None,
                verbose: false,
            };
            let mut i = 3;
            while i < args.len() {
                let v = args.get(i + 1).cloned().unwrap_or_default();
                match args[i].as_str() {
                    "--tier" => ctx.tier = if v == "thorough" { Tier::Thorough } else { Tier::Quick },
                    "--seed" => ctx.seed = v.parse().unwrap_or(0),
                    "--shard" => ctx.shard = v.parse().unwrap_or(0),
                    "--nshards" => ctx.nshards = v.parse().unwrap_or(1),
                    "--cases" => ctx.cases = v.parse().unwrap_or(10),
                    "--only-case" => ctx.only_case = v.parse().ok(),
                    "--variant" => ctx.variant = v,
                    "--fp-out" => ctx.fp_out = Some(v),
                    "--progress" => ctx.progress = Some(v),
                    "--verbose" => {
                        ctx.verbose = true;
                        i += 1;
                        continue;
                    }
                    _ => usage(),
                }
                i += 2;
            }
            if let Err(e) = pgvcore::selftest(ctx.slow()) {
                eprintln!("SELFTEST-FAILED: {e}");
                std::process::exit(2);
            }
            pgvcore::util::install_panic_hook();
            let mut rep = Reporter::new(&ctx);
            let mut extra = Json::obj();
            match ctx.prop.as_str() {
                "C01" => props::c01::run(&ctx, &mut rep),
                "C02" => props::c02::run(&ctx, &mut rep),
                "C03" => props::c03::run(&ctx, &mut rep),
                "C04" => props::c04::run(&ctx, &mut rep),
                "C05" => props::c05::run(&ctx, &mut rep),
                "C06" => props::c06::run(&ctx, &mut rep),
                "C07" => props::c07::run(&ctx, &mut rep),
                "C08" => props::c08::run(&ctx, &mut rep),
                "C09" => props::c09::run(&ctx, &mut rep),
                "C17" => props::c17::run(&ctx, &mut rep),
                "C10" => props::c10::run(&ctx, &mut rep),
                "C11" => props::c11::run(&ctx, &mut rep),
                "C12" => props::c12::run(&ctx, &mut rep),
                "C13" => props::c13::run(&ctx, &mut rep),
                "C15" => props::c15::run(&ctx, &mut rep),
                "C16" => props::c16::run(&ctx, &mut rep),
                "C19" => props::c19::run(&ctx, &mut rep),
                "C18" => extra = props::c18::run(&ctx, &mut rep),
                "C14" => extra = props::c14::run(&ctx, &mut rep),
                "C20" => extra = props::c20::run(&ctx, &mut rep),
                other => {
                    eprintln!("unknown property {other}");
                    std::process::exit(2);
                }
            }
            rep.finish(&ctx, extra);
        }
        _ => usage(),
    }
}
