//! C13 — no mapping bytes and no query can make the library panic, overflow
//! or fail. Oracle: panic trap in the overflow-checked build + Result checks.

use crate::api::*;
use crate::common::*;
use crate::cur;
use crate::report::{text_json, Ctx, Reporter};
use crate::universe::from_records;
use pgvcore::ast::{Gen, GenCfg, Term};
use pgvcore::desc::arbitrary_sig;
use pgvcore::mutate::{mutate_tokens, random_bytes, token_soup};
use pgvcore::rng::Rng;
use pgvcore::traces::arbitrary_line;
use pgvcore::util::{AlignedBuf, Fp, Json};

fn gen_mapping(rng: &mut Rng, case: u64, slow: bool) -> (&'static str, Vec<u8>) {
    match case % 6 {
        0 | 1 => {
            let mut cfg = GenCfg::default();
            cfg.hostile = true;
            cfg.max_blocks = if slow { 3 } else { 8 };
            let ast = Gen::new(rng, cfg).ast();
            let t = *rng.pick(&Term::ALL);
            ("hostile-ast", ast.with_noise(rng, 10).print(t, rng.chance(1, 2), rng))
        }
        2 | 3 => {
            let mut cfg = GenCfg::default();
            cfg.hostile = case % 2 == 0;
            cfg.max_blocks = if slow { 2 } else { 5 };
            let ast = Gen::new(rng, cfg).ast();
            let base = ast.print(Term::Lf, true, rng);
            let k = 1 + rng.below(10);
            ("token-mutated", mutate_tokens(&base, rng, k, false))
        }
        4 => ("token-soup", token_soup(rng, if slow { 20 } else { 60 })),
        _ => ("random-bytes", random_bytes(rng, if slow { 60 } else { 300 })),
    }
}

pub const HUGE_CASE: u64 = u64::MAX - 20;

/// One class whose method has tens of thousands of entries, exercised on a thread
/// with the default 2 MiB stack of a spawned Rust thread: depth-proportional
/// recursion or quadratic blow-ups inside a query show up here.
fn huge_case(ctx: &Ctx, rep: &mut Reporter) {
    ctx.note_case(HUGE_CASE);
    let mut rng = Rng::new(ctx.case_seed(HUGE_CASE));
    let n = if ctx.variant == "debug" { 20_000 } else { 60_000 } + rng.below(5_000);
    let ast = pgvcore::ast::huge_group_ast(&mut rng, n);
    let text = ast.print_lf();
    rep.count("huge_group_inputs", 1);
    let r = std::thread::scope(|s| {
        std::thread::Builder::new()
            .stack_size(2 * 1024 * 1024)
            .spawn_scoped(s, || guarded(|| exercise(&text, &mut rng, rep, HUGE_CASE, true)))
            .expect("spawn")
            .join()
    });
    match r {
        Ok(Ok(())) => {}
        Ok(Err(p)) => {
            let mut d = Json::obj();
            d.set("mapping", Json::s(format!("huge_group_ast(n={n})")));
            panic_violation(rep, HUGE_CASE, "panic", &p, d);
        }
        Err(_) => {
            eprintln!("HARNESS-ERROR: huge-case thread died");
            std::process::exit(2);
        }
    }
}

pub fn run(ctx: &Ctx, rep: &mut Reporter) {
    if !ctx.slow() && ctx.shard < 4 && (ctx.only_case.is_none() || ctx.only_case == Some(HUGE_CASE)) {
        huge_case(ctx, rep);
    }
    if ctx.only_case.is_none() || ctx.only_case == Some(SWEEP_CASE) {
        size_sweep(ctx, rep, "pipeline");
    }
    for case_idx in ctx.case_range() {
        if case_idx == HUGE_CASE || case_idx == SWEEP_CASE {
            continue;
        }
        let mut rng = ctx_rng(ctx, case_idx);
        let (kind, text) = gen_mapping(&mut rng, case_idx, ctx.slow());
        rep.count(&format!("inputs_{kind}"), 1);
        if std::str::from_utf8(&text).is_err() {
            rep.count("inputs_with_invalid_utf8", 1);
        }
        let r = guarded(|| exercise(&text, &mut rng, rep, case_idx, ctx.slow()));
        if let Err(p) = r {
            let mut d = Json::obj();
            d.set("mapping", text_json(&text));
            d.set("kind", Json::s(kind));
            panic_violation(rep, case_idx, "panic", &p, d);
        }
        if rep.wants_sample() {
            let mut s = Json::obj();
            s.set("kind", Json::s(kind));
            s.set("mapping_head", text_json(&text[..text.len().min(300)]));
            rep.sample(s);
        }
    }
}

fn exercise(text: &[u8], rng: &mut Rng, rep: &mut Reporter, case_idx: u64, slow: bool) {
    let (items, _) = cur::records(text, text.len() + 2);
    let u = from_records(&items, false);
    if !u.in_domain {
        rep.count("inputs_outside_representable_domain", 1);
    }
    let mut big = false;
    let mut empty_name = false;
    for it in items.iter().flatten() {
        if let NRec::Method { line_mapping: Some((s, e, os, oe)), original, obfuscated, .. } = it {
            let m = u32::MAX as usize;
            if *s >= m || *e >= m || os.map_or(false, |x| x >= m) || oe.map_or(false, |x| x >= m) {
                big = true;
            }
            if original.is_empty() || obfuscated.is_empty() {
                empty_name = true;
            }
        }
        if let NRec::Class { original, obfuscated } = it {
            if original.is_empty() || obfuscated.is_empty() {
                empty_name = true;
            }
        }
    }
    if big {
        rep.count("inputs_with_numbers_ge_2pow32", 1);
    }
    if empty_name {
        rep.count("inputs_with_empty_names", 1);
    }
    drop(items);
    let _ = cur::summary(text);
    let _ = cur::has_line_info(text);
    let _ = cur::is_valid(text);
    let _ = cur::uuid(text);
    let _ = cur::try_parse_line(text);
    rep.count("evaluations", 5);
    let m = cur::mapper(text, false);
    let mp = cur::mapper(text, true);
    rep.count("api_mapper_new", 2);
    let bytes = match cur::write_cache(text) {
        Ok(b) => b,
        Err(e) => {
            let mut d = Json::obj();
            d.set("mapping", text_json(text));
            d.set("error", Json::s(e.to_string()));
            rep.violation(case_idx, "no-error", "ProguardCache::write to memory returned an error", d);
            return;
        }
    };
    rep.count("api_cache_write", 1);
    let buf = AlignedBuf::from_bytes(&bytes);
    let cache = match cur::parse_cache(buf.as_slice()) {
        Ok(c) => c,
        Err(e) => {
            let mut d = Json::obj();
            d.set("mapping", text_json(text));
            d.set("error", Json::s(format!("{e:?}")));
            rep.violation(case_idx, "no-error", "parsing the freshly written cache returned an error", d);
            return;
        }
    };
    rep.count("api_cache_parse", 1);
    rep.distinct(Fp::new().bytes(text).get());
    let mut out = vec![];
    let mut nq = 0u64;
    let extra_lines: [u64; 6] = [0, 1, u32::MAX as u64, u32::MAX as u64 + 1, u64::MAX - 1, u64::MAX];
    let classes: Vec<&str> = u.classes.iter().map(|c| c.name.as_str()).chain(u.extra_classes.iter().map(|s| s.as_str())).collect();
    for (ci, c) in classes.iter().enumerate() {
        let cu = u.classes.get(ci);
        let _ = (m.class(c), cache.class(c), m.throwable(c, None), cache.throwable(c, Some("x")));
        nq += 4;
        let methods: Vec<&str> =
            cu.map(|cu| cu.methods.iter().map(|s| s.as_str()).collect::<Vec<_>>()).unwrap_or_default().into_iter().chain(u.foreign_methods.iter().map(|s| s.as_str())).collect();
        for me in methods {
            let _ = (m.method(c, me), cache.method(c, me));
            nq += 2;
            let lines = extra_lines.iter().chain(cu.map(|c| c.lines.as_slice()).unwrap_or(&[]).iter());
            for l in lines {
                for file in [None, Some("F.java")] {
                    m.frames(c, me, *l as usize, file, None, &mut out);
                    mp.frames(c, me, *l as usize, file, None, &mut out);
                    cache.frames(c, me, *l as usize, file, None, &mut out);
                    nq += 3;
                }
            }
            let args = cu.map(|c| c.args.as_slice()).unwrap_or(&[]).iter().chain(u.foreign_args.iter());
            for p in args {
                mp.frames(c, me, 0, None, Some(p), &mut out);
                cache.frames(c, me, 0, None, Some(p), &mut out);
                nq += 2;
            }
        }
    }
    rep.count("api_queries", nq);
    rep.count("evaluations", nq);
    // arbitrary trace text and signatures
    let nt = if slow { 2 } else { 6 };
    for _ in 0..nt {
        let nl = rng.below(8);
        let mut t = String::new();
        for _ in 0..nl {
            // bias towards lines that reach the slicing code
            if rng.chance(1, 3) {
                t.push_str("at ");
                t.push_str(&arbitrary_line(rng, 6));
                t.push(')');
            } else {
                t.push_str(&arbitrary_line(rng, 10));
            }
            t.push_str(if rng.chance(1, 4) { "\r\n" } else { "\n" });
        }
        for (who, r) in [("mapper", m.text(&t)), ("cache", cache.text(&t))] {
            rep.count("evaluations", 1);
            rep.count("api_remap_stacktrace_text", 1);
            if let Err(e) = r {
                let mut d = Json::obj();
                d.set("input", Json::s(t.clone()));
                d.set("error", Json::s(e));
                rep.violation(case_idx, "no-error", &format!("remap_stacktrace returned Err impl={who}"), d);
            }
        }
        if !t.is_ascii() {
            rep.count("trace_texts_with_multibyte", 1);
        }
        if let Some(tt) = cur::typed_parse(t.as_bytes()) {
            let _ = m.typed(&tt);
            let _ = cache.typed(&tt);
            let _ = cur::typed_print(&tt);
            rep.count("api_typed_parse_some", 1);
        }
        let mut raw = t.clone().into_bytes();
        if !raw.is_empty() {
            let i = rng.below(raw.len());
            raw[i] = 0xff;
        }
        let _ = cur::typed_parse(&raw);
        let _ = cur::frame_parse(&raw);
        let _ = cur::throwable_parse(&raw);
        rep.count("evaluations", 4);
        let s = arbitrary_sig(rng);
        let _ = (m.sig(&s), cache.sig(&s));
        rep.count("api_deobfuscate_signature", 2);
        rep.count("evaluations", 2);
        if !s.is_ascii() {
            rep.count("signatures_with_multibyte", 1);
        }
    }
}
