//! C18 — the mapping UUID is the stable content-derived identifier other
//! tools compute. Oracle: independent SHA-1 / RFC 4122 v5 computation in the
//! harness; an event log (input, uuid) that tools/uuid_check.py re-checks
//! with Python's hashlib/uuid; cross-process equality on a fixed input set.

use crate::common::*;
use crate::cur;
use crate::props::c02::{load_corpus, CORPUS};
use crate::report::{Ctx, Reporter, Tier};
use pgvcore::mutate::to_crlf;
use pgvcore::rng::Rng;
use pgvcore::util::{hex, proguard_uuid, sha1, Fp, Json};
use std::io::Write;

fn check_one(input: &[u8], what: &str, rep: &mut Reporter, case_idx: u64, log: &mut Option<std::fs::File>) -> String {
    let got = cur::uuid(input);
    let exp = proguard_uuid(input);
    rep.count("evaluations", 1);
    rep.distinct(Fp::new().bytes(input).get());
    if got != exp {
        let mut d = Json::obj();
        d.set("input_kind", Json::s(what));
        d.set("input_len", Json::i(input.len() as u64));
        d.set("input_sha1", Json::s(hex(&sha1(input))));
        d.set("input_head_hex", Json::s(hex(&input[..input.len().min(64)])));
        d.set("expected", Json::s(exp.clone()));
        d.set("actual", Json::s(got.clone()));
        rep.violation(case_idx, "uuid-oracle", "uuid() differs from v5(v5(DNS,'guardsquare.com'), bytes)", d);
    }
    if let Some(f) = log {
        if input.len() <= 2048 {
            let _ = writeln!(f, "{{\"hex\":\"{}\",\"uuid\":\"{}\"}}", hex(input), got);
            rep.count("log_entries_for_offline_checker", 1);
        }
    }
    got
}

pub fn run(ctx: &Ctx, rep: &mut Reporter) -> Json {
    let mut extra = Json::obj();
    let mut log = if ctx.variant == "native" && ctx.only_case.is_none() {
        let dir = format!("{}/C18", std::env::var("PGV_OUT").unwrap_or_else(|_| "/verif/out".into()));
        let _ = std::fs::create_dir_all(&dir);
        std::fs::File::create(format!("{dir}/uuidlog_{}.jsonl", ctx.shard)).ok()
    } else {
        None
    };
    // ---- the first call in this process, raced from 16 threads (lazy namespace)
    let r = guarded(|| {
        let input: &'static [u8] = b"race.Me -> a:\n";
        let exp = proguard_uuid(input);
        let barrier = std::sync::Arc::new(std::sync::Barrier::new(16));
        let hs: Vec<_> = (0..16)
            .map(|_| {
                let b = barrier.clone();
                std::thread::spawn(move || {
                    b.wait();
                    cur::uuid(input)
                })
            })
            .collect();
        let got: Vec<String> = hs.into_iter().map(|h| h.join().unwrap()).collect();
        (exp, got)
    });
    match r {
        Ok((exp, got)) => {
            rep.count("evaluations", 16);
            rep.count("raced_first_calls", 16);
            if got.iter().any(|g| *g != exp) {
                let mut d = Json::obj();
                d.set("expected", Json::s(exp));
                d.set("actual", Json::Arr(got.into_iter().map(Json::s).collect()));
                rep.violation(u64::MAX - 9, "uuid-race", "uuid() raced from 16 threads returned differing or wrong values", d);
            }
        }
        Err(p) => panic_violation(rep, u64::MAX - 9, "panic", &p, Json::obj()),
    }
    if ctx.variant == "tsan" || ctx.variant == "miri" {
        return extra;
    }
    // ---- fixed set: every process computes these; the driver requires equal values across processes
    let mut fixed = String::new();
    fixed.push_str(&check_one(b"", "empty", rep, u64::MAX - 8, &mut log));
    if !ctx.slow() {
        for (i, name) in CORPUS.iter().enumerate() {
            let d = load_corpus(i);
            let lf = check_one(&d, name, rep, u64::MAX - 8, &mut log);
            let crlf_bytes = to_crlf(&d);
            let crlf = check_one(&crlf_bytes, &format!("{name} (CRLF)"), rep, u64::MAX - 8, &mut log);
            rep.count("lf_crlf_pairs", 1);
            if lf == crlf && d != crlf_bytes {
                let mut dd = Json::obj();
                dd.set("file", Json::s(*name));
                rep.violation(u64::MAX - 8, "uuid-oracle", "LF and CRLF variants of a file have the same UUID", dd);
            }
            fixed.push_str(&lf);
            fixed.push_str(&crlf);
            if *name == "mapping-r8.txt" && lf != "c96fb926-797c-53de-90ee-df2aeaf28340" {
                // the repository's own (feature-gated) expectation for this file
                let mut dd = Json::obj();
                dd.set("actual", Json::s(lf.clone()));
                rep.violation(u64::MAX - 8, "uuid-oracle", "UUID of mapping-r8.txt differs from the repository's recorded value", dd);
            }
        }
    }
    extra.set("same_across_shards:uuid_fixed_set_digest", Json::s(hex(&sha1(fixed.as_bytes()))));
    // ---- random byte strings
    for case_idx in ctx.case_range() {
        let mut rng = ctx_rng(ctx, case_idx);
        if case_idx % 8 == 7 {
            // "depends on nothing but the bytes": a mapping decorated with bytes that a
            // well-meaning normalisation would strip (byte order marks, blank lines,
            // trailing whitespace / NUL / ^Z, comment lines)
            let base: Vec<u8> = match rng.below(3) {
                0 => b"com.example.A -> a:\n    1:1:void f():3:3 -> b\n".to_vec(),
                1 => {
                    let d = load_corpus(rng.below(5));
                    crate::props::c02::corpus_window(&d, &mut rng, 30)
                }
                _ => Vec::new(),
            };
            // header lines carrying identifier-shaped values must not influence the identifier
            const IDS: &[&str] = &[
                "# pg_map_id: 123e4567-e89b-12d3-a456-426614174000\n",
                "# pg_map_id: 123e4567e89b12d3a456426614174000\n",
                "# pg_map_id: {123e4567-e89b-12d3-a456-426614174000}\n",
                "# pg_map_id: urn:uuid:123e4567-e89b-12d3-a456-426614174000\n",
                "# pg_map_hash: SHA-256 0123456789abcdef0123456789abcdef0123456789abcdef0123456789abcdef\n",
                "# uuid: 123e4567-e89b-12d3-a456-426614174000\n",
                "# compiler: R8\n# compiler_version: 8.2.33\n# min_api: 21\n# pg_map_id: 0a1b2c3\n",
            ];
            {
                let id = *rng.pick(IDS);
                let mut v = id.as_bytes().to_vec();
                v.extend_from_slice(&base);
                let r = guarded(|| {
                    let with = check_one(&v, "identifier-shaped header", rep, case_idx, &mut log);
                    let mut w = id.replace("123e4567", "223e4567").into_bytes();
                    w.extend_from_slice(&base);
                    w.push(b'#');
                    let other = check_one(&w, "identifier-shaped header, different body", rep, case_idx, &mut log);
                    rep.count("inputs_with_identifier_shaped_headers", 2);
                    if with == other {
                        rep.violation(case_idx, "uuid-oracle", "two different files with identifier-shaped headers have the same UUID", Json::obj());
                    }
                });
                if let Err(p) = r {
                    panic_violation(rep, case_idx, "panic", &p, Json::obj());
                }
            }
            // the same content under other line-ending conventions (a text-mode conversion
            // applied once, applied to its own output, old-Mac CR, LF CR): each is its own file
            {
                let r = guarded(|| {
                    let once = check_one(&base, "single copy", rep, case_idx, &mut log);
                    let rep_nl = |nl: &[u8]| -> Vec<u8> {
                        let mut o = Vec::with_capacity(base.len() + base.len() / 8);
                        for b in base.iter() {
                            if *b == b'\n' {
                                o.extend_from_slice(nl);
                            } else if *b != b'\r' {
                                o.push(*b);
                            }
                        }
                        o
                    };
                    let mut seen = vec![once];
                    for nl in [&b"\r\n"[..], b"\r\r\n", b"\r", b"\n\r", b"\r\r\r\n"] {
                        let v = rep_nl(nl);
                        let u = check_one(&v, "other line-ending convention", rep, case_idx, &mut log);
                        rep.count("inputs_under_other_line_ending_conventions", 1);
                        if base.contains(&b'\n') && seen.contains(&u) {
                            rep.violation(case_idx, "uuid-oracle", "two files that differ only in their line-ending convention have the same UUID", Json::obj());
                        }
                        seen.push(u);
                    }
                });
                if let Err(p) = r {
                    panic_violation(rep, case_idx, "panic", &p, Json::obj());
                }
            }
            // the same text saved as UTF-16 with a byte order mark: other bytes, another file
            if base.is_ascii() && !base.is_empty() {
                let r = guarded(|| {
                    let once = check_one(&base, "single copy", rep, case_idx, &mut log);
                    for le in [true, false] {
                        let mut v: Vec<u8> = if le { vec![0xFF, 0xFE] } else { vec![0xFE, 0xFF] };
                        for b in base.iter().take(40_000) {
                            if le {
                                v.extend_from_slice(&[*b, 0]);
                            } else {
                                v.extend_from_slice(&[0, *b]);
                            }
                        }
                        let u = check_one(&v, "re-encoded as UTF-16", rep, case_idx, &mut log);
                        rep.count("inputs_re_encoded_as_utf16", 1);
                        if u == once {
                            rep.violation(case_idx, "uuid-oracle", "a file and its UTF-16 re-encoding have the same UUID", Json::obj());
                        }
                    }
                });
                if let Err(p) = r {
                    panic_violation(rep, case_idx, "panic", &p, Json::obj());
                }
            }
            // buffers read in whole blocks: the file followed by the fill of its last 512-byte
            // or 4096-byte block (NUL, blank, ^Z) — the identifier covers the fill
            {
                let r = guarded(|| {
                    let once = check_one(&base, "single copy", rep, case_idx, &mut log);
                    for block in [512usize, 4096] {
                        let fill = *rng.pick(&[0u8, 0, b' ', 0x1a, b'\n']);
                        let mut v = base.clone();
                        let pad = (block - v.len() % block) % block;
                        v.extend(std::iter::repeat(fill).take(if pad == 0 { block } else { pad }));
                        let u = check_one(&v, "padded to a whole block", rep, case_idx, &mut log);
                        rep.count("inputs_padded_to_a_whole_block", 1);
                        if u == once {
                            rep.violation(case_idx, "uuid-oracle", "a file and the same file padded to a whole block have the same UUID", Json::obj());
                        }
                    }
                });
                if let Err(p) = r {
                    panic_violation(rep, case_idx, "panic", &p, Json::obj());
                }
            }
            // a mapping appended to itself (a CI step that ran `cat mapping.txt >> out` twice),
            // three times, and two halves that differ in one byte: each is its own byte string
            {
                let r = guarded(|| {
                    let once = check_one(&base, "single copy", rep, case_idx, &mut log);
                    let mut twice = base.clone();
                    twice.extend_from_slice(&base);
                    let u2 = check_one(&twice, "file appended to itself", rep, case_idx, &mut log);
                    let mut thrice = twice.clone();
                    thrice.extend_from_slice(&base);
                    let u3 = check_one(&thrice, "three copies", rep, case_idx, &mut log);
                    rep.count("inputs_appended_to_themselves", 1);
                    if !base.is_empty() && (once == u2 || u2 == u3) {
                        rep.violation(case_idx, "uuid-oracle", "a file and the same file appended to itself have the same UUID", Json::obj());
                    }
                });
                if let Err(p) = r {
                    panic_violation(rep, case_idx, "panic", &p, Json::obj());
                }
            }
            // sub-mappings cut exactly at the halves of CRLF terminators
            {
                let crlf = to_crlf(&base);
                let nls: Vec<usize> = crlf.iter().enumerate().filter(|(i, b)| **b == b'\n' && *i > 0 && crlf[*i - 1] == b'\r').map(|(i, _)| i).collect();
                if !nls.is_empty() {
                    let r = guarded(|| {
                        for _ in 0..4 {
                            let nl = *rng.pick(&nls);
                            let (a0, b0) = match rng.below(4) {
                                0 => (0, nl),          // ends between CR and LF
                                1 => (nl, crlf.len()), // starts between CR and LF
                                2 => (nl - 1, nl),     // just the CR
                                _ => (nl, nl + 1),     // just the LF
                            };
                            let exp = proguard_uuid(&crlf[a0..b0]);
                            let (s1, c1) = cur::uuid_section(&crlf, a0, b0, rng.chance(1, 2));
                            rep.count("evaluations", 2);
                            rep.count("section_uuid_checks_at_crlf_halves", 1);
                            if s1 != exp || c1 != exp {
                                let mut d = Json::obj();
                                d.set("range", Json::s(format!("{a0}..{b0} of {} bytes (CRLF file, boundary at a line terminator half)", crlf.len())));
                                d.set("expected", Json::s(exp));
                                d.set("section_uuid", Json::s(s1));
                                rep.violation(case_idx, "uuid-oracle", "uuid() of a section (or its clone) is not the v5 UUID of the section's bytes", d);
                            }
                        }
                    });
                    if let Err(p) = r {
                        panic_violation(rep, case_idx, "panic", &p, Json::obj());
                    }
                }
            }
            const PRE: &[&[u8]] = &[b"\xEF\xBB\xBF", b"\xFF\xFE", b"\xFE\xFF", b"\n", b"\r\n", b" ", b"\0", b"#\n", b"\t", b"\xEF\xBB", b"\xEF\xBB\xBF\xEF\xBB\xBF"];
            const SUF: &[&[u8]] = &[b"\n", b"\r\n", b" ", b"\0", b"\n\n", b"\x1a", b"\r", b"\t", b"\xEF\xBB\xBF"];
            let r = guarded(|| {
                let plain = check_one(&base, "plain", rep, case_idx, &mut log);
                let mut v = rng.pick(PRE).to_vec();
                v.extend_from_slice(&base);
                let pre = check_one(&v, "prefixed", rep, case_idx, &mut log);
                let mut w = base.clone();
                w.extend_from_slice(*rng.pick(SUF));
                let suf = check_one(&w, "suffixed", rep, case_idx, &mut log);
                rep.count("decorated_inputs", 2);
                if pre == plain || suf == plain {
                    let mut d = Json::obj();
                    d.set("plain_head_hex", Json::s(hex(&base[..base.len().min(32)])));
                    d.set("prefixed_head_hex", Json::s(hex(&v[..v.len().min(32)])));
                    rep.violation(case_idx, "uuid-oracle", "a file and the same file with extra leading/trailing bytes have the same UUID", d);
                }
            });
            if let Err(p) = r {
                panic_violation(rep, case_idx, "panic", &p, Json::obj());
            }
            continue;
        }
        let len = match case_idx % 8 {
            0 => rng.below(4),
            1 => rng.below(64),
            2 => 55 + rng.below(20), // around the SHA-1 padding boundary
            3 => rng.below(4096),
            4 => {
                if ctx.tier == Tier::Thorough && !ctx.slow() && case_idx % 64 == 4 {
                    1 << 20
                } else {
                    rng.below(65536)
                }
            }
            _ => rng.below(1024),
        };
        let len = if ctx.slow() { len.min(256) } else { len };
        let mut input: Vec<u8> = Vec::with_capacity(len);
        let mut r2 = Rng::new(rng.next_u64());
        while input.len() < len {
            input.extend_from_slice(&r2.next_u64().to_le_bytes());
        }
        input.truncate(len);
        let r = guarded(|| {
            let a = check_one(&input, "random", rep, case_idx, &mut log);
            // sub-mappings and clones are identified by their own bytes, whatever was asked before
            if input.len() >= 2 {
                let a0 = rng.below(input.len());
                let b0 = a0 + rng.below(input.len() - a0 + 1);
                let exp = proguard_uuid(&input[a0..b0]);
                for warm in [true, false] {
                    let (s, c) = cur::uuid_section(&input, a0, b0, warm);
                    rep.count("evaluations", 2);
                    rep.count("section_uuid_checks", 2);
                    if s != exp || c != exp {
                        let mut d = Json::obj();
                        d.set("input_len", Json::i(input.len() as u64));
                        d.set("range", Json::s(format!("{a0}..{b0}")));
                        d.set("parent_uuid_computed_first", Json::Bool(warm));
                        d.set("expected", Json::s(exp.clone()));
                        d.set("section_uuid", Json::s(s));
                        d.set("clone_uuid", Json::s(c));
                        rep.violation(case_idx, "uuid-oracle", "uuid() of a section (or its clone) is not the v5 UUID of the section's bytes", d);
                    }
                }
            }
            // a section of a section is identified by its own bytes too
            if input.len() >= 4 {
                let a0 = rng.below(input.len());
                let b0 = a0 + rng.below(input.len() - a0 + 1);
                let c0 = rng.below(b0 - a0 + 1);
                let d0 = c0 + rng.below(b0 - a0 - c0 + 1);
                let bytes = &input[a0 + c0..a0 + d0];
                let exp = proguard_uuid(bytes);
                let (s, n) = cur::uuid_nested_section(&input, a0, b0, c0, d0);
                let n_exp = cur::records(bytes, usize::MAX).0.len();
                rep.count("evaluations", 2);
                rep.count("nested_section_checks", 1);
                if a0 > 0 && d0 > c0 {
                    rep.count("nested_section_checks_with_outer_start_gt0_and_nonempty_inner", 1);
                }
                if s != exp || n != n_exp {
                    let mut d = Json::obj();
                    d.set("input_len", Json::i(input.len() as u64));
                    d.set("ranges", Json::s(format!("section({a0}..{b0}).section({c0}..{d0})")));
                    d.set("expected", Json::s(exp));
                    d.set("section_uuid", Json::s(s));
                    d.set("records_expected_and_seen", Json::s(format!("{n_exp} {n}")));
                    rep.violation(case_idx, "uuid-oracle", "a section of a section is not identified by (or does not iterate over) its own bytes", d);
                }
            }
            // a second copy at a different address gives the same identifier
            let copy = input.clone();
            let b = cur::uuid(&copy);
            rep.count("evaluations", 1);
            if a != b {
                rep.violation(case_idx, "uuid-oracle", "equal byte strings at different addresses have different UUIDs", Json::obj());
            }
            if !input.is_empty() {
                // one flipped bit gives a different identifier
                let mut f = input.clone();
                let i = rng.below(f.len());
                f[i] ^= 1 << rng.below(8);
                let c = check_one(&f, "random-bitflip", rep, case_idx, &mut log);
                rep.count("one_bit_pairs", 1);
                if c == a {
                    rep.violation(case_idx, "uuid-oracle", "inputs differing in one bit have the same UUID", Json::obj());
                }
            }
            if rep.wants_sample() {
                let mut s = Json::obj();
                s.set("input_len", Json::i(input.len() as u64));
                s.set("input_head_hex", Json::s(hex(&input[..input.len().min(32)])));
                s.set("uuid", Json::s(a));
                rep.sample(s);
            }
        });
        if let Err(p) = r {
            panic_violation(rep, case_idx, "panic", &p, Json::obj());
        }
        rep.count("bytes_hashed", input.len() as u64);
    }
    extra
}
