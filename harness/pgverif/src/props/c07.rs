//! C07 — text trace remapping rewrites known lines and passes everything
//! else through. Oracles: (M3) full line-by-line model on structured traces
//! whose line kinds are known by construction (opaque lines include
//! arbitrary Unicode text that is unrecognisable under any reading);
//! (M1) identity up to terminator normalisation on arbitrary text with a
//! mapping that knows none of the classes.

use crate::api::*;
use crate::common::*;
use crate::cur;
use crate::report::{Ctx, Reporter};
use pgvcore::ast::{is_representable, Gen};
use pgvcore::model::Model;
use pgvcore::rng::Rng;
use pgvcore::traces::*;
use pgvcore::util::{AlignedBuf, Fp, Json};

const DISJOINT_MAPPING: &str = "orig.One -> Zq9.a:\n    1:5:void run():10:14 -> a\n    void x() -> b\norig.Two -> Zq9:\n# {\"id\":\"sourceFile\",\"fileName\":\"Two.kt\"}\n    void y(int) -> a\n";

pub fn run(ctx: &Ctx, rep: &mut Reporter) {
    for case_idx in ctx.case_range() {
        let mut rng = ctx_rng(ctx, case_idx);
        if case_idx % 4 == 3 {
            let r = guarded(|| identity_case(&mut rng, rep, case_idx, ctx.slow()));
            if let Err(p) = r {
                panic_violation(rep, case_idx, "panic", &p, Json::obj());
            }
            continue;
        }
        let mut cfg = crate::props::c01::cfg_for(case_idx);
        if ctx.slow() {
            cfg.max_blocks = 3;
        }
        let ast = Gen::new(&mut rng, cfg).ast();
        if !is_representable(&ast) {
            continue;
        }
        let ast = if rng.chance(1, 4) { ast.with_noise(&mut rng, 10) } else { ast };
        let model = Model::new(&ast);
        let names = names_of(&ast);
        let text = ast.print(*rng.pick(&pgvcore::ast::Term::ALL), true, &mut rng);
        let ntr = if ctx.slow() { 2 } else { 12 };
        let r = guarded(|| model_case(&text, &model, &names, &mut rng, rep, case_idx, ntr));
        if let Err(p) = r {
            panic_violation(rep, case_idx, "panic", &p, mapping_detail(&text, ""));
        }
    }
}

fn model_case(text: &[u8], model: &Model<'_>, names: &Names, rng: &mut Rng, rep: &mut Reporter, case_idx: u64, ntr: usize) {
    let m = cur::mapper(text, false);
    let bytes = cur::write_cache(text).expect("write to Vec");
    let buf = AlignedBuf::from_bytes(&bytes);
    let cache = match cur::parse_cache(buf.as_slice()) {
        Ok(c) => c,
        Err(e) => {
            let mut d = mapping_detail(text, "");
            d.set("error", Json::s(format!("{e:?}")));
            rep.violation(case_idx, "cache-parse", "freshly written cache rejected", d);
            return;
        }
    };
    let tg = TextGen { tg: TraceGen { names } };
    for _ in 0..ntr {
        let mut lines = tg.lines(rng);
        // now and then one line is longer than 64 KiB (a message quoting a payload, a
        // generated file name): its kind, and hence its expected treatment, is unchanged
        if !lines.is_empty() && rng.chance(1, 100) {
            let i = rng.below(lines.len());
            let pad = "x".repeat(*rng.pick(&[65_500usize, 65_536, 70_000]));
            let l = &mut lines[i];
            let long = match &mut l.kind {
                LineKind::Throwable(t) | LineKind::CausedBy(t) => {
                    match &mut t.message {
                        Some(m) => {
                            m.push_str(&pad);
                            l.text.push_str(&pad);
                        }
                        None => {
                            t.message = Some(pad.clone());
                            l.text.push_str(": ");
                            l.text.push_str(&pad);
                        }
                    }
                    true
                }
                LineKind::Frame(f) => {
                    let indent: String = l.text.chars().take_while(|c| c.is_whitespace()).collect();
                    f.file = Some(format!("{pad}.java"));
                    l.text = format!("{indent}{}", f.print());
                    true
                }
                LineKind::Opaque => false,
            };
            if long {
                rep.count("traces_with_a_line_longer_than_64KiB", 1);
            }
        }
        for l in &lines {
            let k = match &l.kind {
                LineKind::Throwable(_) => "lines_throwable",
                LineKind::CausedBy(_) => "lines_caused_by",
                LineKind::Frame(_) => "lines_frame",
                LineKind::Opaque => "lines_opaque",
            };
            rep.count(k, 1);
        }
        // lines that QUOTE an earlier line of the same text (the JDK's circular-reference marker,
        // a log prefix repeating the head): unrecognised lines, to be echoed whatever they quote
        if lines.len() >= 2 && rng.chance(1, 10) {
            let quotable: Vec<String> = lines.iter().filter(|l| matches!(l.kind, LineKind::Throwable(_) | LineKind::CausedBy(_))).map(|l| l.text.trim_start_matches("Caused by: ").to_string()).collect();
            if let Some(q) = quotable.first().cloned() {
                let q = if rng.chance(1, 2) { q } else { quotable[rng.below(quotable.len())].clone() };
                let text = match rng.below(4) {
                    0 => format!("\t[CIRCULAR REFERENCE:{q}]"),
                    1 => format!("\t[CIRCULAR REFERENCE: {q}]"),
                    2 => format!("Suppressed: [CIRCULAR REFERENCE: {q}]"),
                    _ => format!("    ... see above: {q}"),
                };
                let at = 1 + rng.below(lines.len());
                lines.insert(at, TextLine { text, kind: LineKind::Opaque });
                rep.count("traces_with_a_line_that_quotes_an_earlier_throwable", 1);
            }
        }
        let term = if rng.chance(1, 3) { TextTerm::CrLf } else { TextTerm::Lf };
        let mut trailing = rng.chance(2, 3);
        // a text cut off between the CR and the LF of its last terminator: the bare CR belongs
        // to the last line (str::lines only strips it in front of an LF)
        if !lines.is_empty() && rng.chance(1, 25) {
            lines.last_mut().unwrap().text.push('\r');
            trailing = false;
            rep.count("inputs_ending_in_a_bare_cr", 1);
        }
        let input = join_lines(&lines, term, trailing);
        let (exp, rewritten, passed) = expected_text(model, &lines, trailing);
        if rewritten > 0 && passed > 0 {
            rep.count("traces_with_rewritten_and_passed_lines", 1);
            rep.distinct(Fp::new().bytes(text).str(&input).get());
        }
        rep.count("lines_rewritten_expected", rewritten as u64);
        rep.count("lines_passed_expected", passed as u64);
        for which in 0..2 {
            let who = ["mapper", "cache"][which];
            let got = if which == 0 { m.text(&input) } else { cache.text(&input) };
            rep.count("evaluations", 1);
            match got {
                Err(e) => {
                    let mut d = mapping_detail(text, "");
                    d.set("input", Json::s(input.clone()));
                    d.set("error", Json::s(e));
                    rep.violation(case_idx, "text-model", &format!("remap_stacktrace returned Err impl={who}"), d);
                }
                Ok(g) => {
                    if g != exp {
                        let gl: Vec<&str> = g.split('\n').collect();
                        let el: Vec<&str> = exp.split('\n').collect();
                        let idx = gl.iter().zip(&el).position(|(a, b)| a != b).unwrap_or(gl.len().min(el.len()));
                        // classify by the kind of the input line responsible (best effort:
                        // output line index is >= input line index)
                        let kind = if gl.len() != el.len() { "line count differs" } else { "a line differs" };
                        let mut d = mapping_detail(text, "");
                        d.set("implementation", Json::s(who));
                        d.set("input", Json::s(input.clone()));
                        d.set("expected", Json::s(exp.clone()));
                        d.set("actual", Json::s(g.clone()));
                        d.set("first_differing_output_line", Json::i(idx as u64));
                        d.set("expected_line", Json::s(el.get(idx).copied().unwrap_or("<none>")));
                        d.set("actual_line", Json::s(gl.get(idx).copied().unwrap_or("<none>")));
                        rep.violation(case_idx, "text-model", &format!("remap_stacktrace output differs from line-by-line model ({kind}) impl={who}"), d);
                    }
                }
            }
        }
        // what a caller may do next: feed the (expected) output back in. Its line kinds are not
        // known by construction, so only mapper == cache and "no line lost" are checked.
        {
            let (a, b) = (m.text(&exp), cache.text(&exp));
            rep.count("evaluations", 2);
            rep.count("outputs_fed_back_in", 1);
            let lines_in = exp.lines().count();
            let lost = |r: &Result<String, String>| r.as_ref().map_or(true, |s| s.lines().count() < lines_in);
            if a != b || lost(&a) {
                let mut d = mapping_detail(text, "");
                d.set("input", Json::s(exp.clone()));
                d.set("mapper", Json::s(format!("{a:?}")));
                d.set("cache", Json::s(format!("{b:?}")));
                let what = if a != b { "mapper and cache differ" } else { "lines were lost" };
                rep.violation(case_idx, "text-model", &format!("remapping an already remapped trace: {what}"), d);
            }
        }
        if rep.wants_sample() && rewritten > 0 && passed > 0 {
            let mut s = Json::obj();
            s.set("input", Json::s(input.clone()));
            s.set("expected_output", Json::s(exp.clone()));
            rep.sample(s);
        }
    }
}

fn identity_case(rng: &mut Rng, rep: &mut Reporter, case_idx: u64, slow: bool) {
    let empty = cur::mapper(b"", false);
    let dis = cur::mapper(DISJOINT_MAPPING.as_bytes(), false);
    let bytes = cur::write_cache(DISJOINT_MAPPING.as_bytes()).expect("write");
    let buf = AlignedBuf::from_bytes(&bytes);
    let cache = cur::parse_cache(buf.as_slice()).expect("parse own cache");
    let n = if slow { 2 } else { 20 };
    for _ in 0..n {
        let nl = rng.below(12);
        let mut input = String::new();
        for i in 0..nl {
            input.push_str(&arbitrary_line(rng, 16));
            if i + 1 < nl || rng.chance(1, 2) {
                input.push_str(if rng.chance(1, 3) { "\r\n" } else { "\n" });
            }
        }
        let exp = normalised(&input);
        if input.contains('(') && input.contains(')') && input.contains(':') && !input.is_ascii() {
            rep.count("identity_inputs_with_delimiters_and_multibyte", 1);
            rep.distinct(Fp::new().str(&input).get());
        }
        for (who, got) in [("empty mapper", empty.text(&input)), ("disjoint mapper", dis.text(&input)), ("disjoint cache", cache.text(&input))] {
            rep.count("evaluations", 1);
            rep.count("identity_checks", 1);
            if got.as_deref() != Ok(exp.as_str()) {
                let mut d = Json::obj();
                d.set("implementation", Json::s(who));
                d.set("input", Json::s(input.clone()));
                d.set("expected", Json::s(exp.clone()));
                d.set("actual", Json::s(format!("{got:?}")));
                rep.violation(case_idx, "text-identity", "with a mapping that knows none of the classes the output differs from the normalised input", d);
            }
        }
    }
}
