//! C19 — file-level metadata answers equal a fold over the complete record
//! stream. Oracle: M's folds over the AST's item stream.

use crate::common::*;
use crate::cur;
use crate::report::{text_json, Ctx, Reporter, Tier};
use pgvcore::ast::{Gen, GenCfg, Item, MapAst, MethodEntry, Term, NOISE_CATALOGUE};
use pgvcore::model::folds;
use pgvcore::rng::Rng;
use pgvcore::util::{Fp, Json};

fn unmapped_method(rng: &mut Rng) -> MethodEntry {
    let mut g = Gen::new(rng, GenCfg::default());
    let mut m = g.method();
    match m.usable() {
        Some(_) => {
            m.start = None;
            m.end = None;
        }
        None => {}
    }
    m
}

fn mapped_method(rng: &mut Rng) -> MethodEntry {
    let mut g = Gen::new(rng, GenCfg::default());
    let mut m = g.method();
    let a = 1 + g.rng.below(50) as u128;
    m.start = Some(a);
    m.end = Some(a + g.rng.below(4) as u128);
    // a kept member whose line table is the identity: it still carries a line mapping
    if g.rng.chance(1, 3) {
        m.orig = m.obf.clone();
        m.orig_class = None;
        m.ostart = m.start;
        m.oend = if m.start == m.end && g.rng.chance(1, 2) { None } else { m.end };
    }
    m
}

fn header(rng: &mut Rng) -> Item {
    let key = rng.pick(&["compiler", "compiler_version", "min_api", "min_api", "pg_map_id", "compiler "]).trim().to_string();
    let value = match rng.below(8) {
        0 => None,
        1 => Some(String::new()),
        2 => Some(rng.pick(&["x", "+5", "-1", "4294967295", "4294967296", "007", "2 1", "٣"]).to_string()),
        3 => Some(rng.pick(&["R8 8.2.33", "D8  21", "R8\t24", "R8 R8", "21 R8", "24.0"]).to_string()),
        _ => Some(rng.pick(&["R8", "8.2.33", "21", "24", "D8"]).to_string()),
    };
    Item::HeaderKV { key, value }
}

fn srcfile(rng: &mut Rng) -> Item {
    Item::SourceFileJson { name: rng.pick(&["Main.kt", "R8$$SyntheticClass", "A.java"]).to_string() }
}

fn filler(rng: &mut Rng, kind: usize) -> Item {
    if rng.chance(1, 6) {
        // long lines: items are counted, not bytes
        let n = *rng.pick(&[200usize, 400, 900, 3000, 9000]);
        return if rng.chance(1, 2) {
            Item::HeaderKV { key: "a comment".into(), value: Some("x".repeat(n)) }
        } else {
            Item::Noise(format!("noise {}", "y".repeat(n)))
        };
    }
    match kind % 5 {
        0 => Item::Noise(rng.pick(NOISE_CATALOGUE).to_string()),
        1 => header(rng),
        2 => Item::Method(unmapped_method(rng)), // a member before any class line
        3 => Item::Blank,
        _ => Item::HeaderKV { key: "a comment".into(), value: None },
    }
}

fn gen_file(rng: &mut Rng, case: u64, thorough: bool) -> MapAst {
    let mut items = vec![];
    // leading items so that the class/member pair straddles item 49/50/51
    let lead = match case % 10 {
        0 => 0,
        1 => 47,
        2 => 48,
        3 => 49,
        4 => 50,
        5 => 51,
        6 => rng.below(60),
        7 => {
            if thorough && case % 40 == 7 {
                5000
            } else {
                200 + rng.below(400)
            }
        }
        _ => rng.below(10),
    };
    let kind = rng.below(6);
    for _ in 0..lead {
        let k = if kind == 5 { rng.below(5) } else { kind };
        let it = filler(rng, k);
        items.push(it);
    }
    let nblocks = 1 + rng.below(4);
    let mapped_at = rng.below(6); // where (if at all) the first line-mapped method sits
    // class records may repeat: the same obfuscated name, the same original name, or the
    // whole line (concatenated partial mappings) — counts are over records, not names
    let repeat = rng.below(4);
    for b in 0..nblocks {
        if rng.chance(4, 5) {
            let (o, k) = match repeat {
                0 => (b, b % 2),
                1 => (b % 2, b),
                2 => (0, 0),
                _ => (b, b),
            };
            if rng.chance(1, 3) {
                // a kept class: it maps onto itself
                items.push(Item::Class { orig: format!("com.example.Keep{k}"), obf: format!("com.example.Keep{k}") });
            } else {
                items.push(Item::Class { orig: format!("com.example.K{o}"), obf: format!("k{k}") });
            }
        }
        if rng.chance(1, 4) {
            items.push(Item::Noise(rng.pick(NOISE_CATALOGUE).to_string()));
        }
        for _ in 0..rng.below(4) {
            let h = if rng.chance(1, 3) { srcfile(rng) } else { header(rng) };
            items.push(h);
        }
        let n = match rng.below(5) {
            0 => 0,
            1 => if thorough && case % 40 == 11 { 5000 } else { 100 + rng.below(200) },
            _ => rng.below(6),
        };
        for _ in 0..n {
            if rng.chance(1, 6) {
                items.push(Item::Field { ty: "int".into(), orig: "f".into(), obf: "a".into() });
            } else if rng.chance(1, 5) && matches!(items.last(), Some(Item::Method(_))) {
                let prev = items.last().cloned().unwrap();
                items.push(prev); // the same method line again
            } else {
                items.push(Item::Method(unmapped_method(rng)));
            }
        }
        if mapped_at == b {
            items.push(Item::Method(mapped_method(rng)));
        }
    }
    if case % 2000 == 13 {
        // more class and method records than a 16-bit counter holds
        let extra = 65_536 + rng.below(600);
        for i in 0..extra {
            items.push(Item::Class { orig: format!("com.example.N{i}"), obf: format!("n{}", i % 70_000) });
            if i % 2 == 0 {
                items.push(Item::Method(unmapped_method(rng)));
            }
        }
    }
    if mapped_at == 5 && rng.chance(1, 2) {
        // decisive record in the very last line
        items.push(Item::Method(mapped_method(rng)));
    }
    MapAst { items }
}

pub fn run(ctx: &Ctx, rep: &mut Reporter) {
    let thorough = ctx.tier == Tier::Thorough;
    for case_idx in ctx.case_range() {
        let mut rng = ctx_rng(ctx, case_idx);
        let mut ast = gen_file(&mut rng, case_idx, thorough && !ctx.slow());
        // a file saved with a UTF-8 byte order mark: the mark is part of the first line, which
        // therefore is an unparseable line unless it is a class line (whose name then starts
        // with the mark) — the metadata answers are folds over THAT record stream
        if rng.chance(1, 12) {
            if let Some(first) = ast.items.first().cloned() {
                let marked = match &first {
                    Item::Class { orig, obf } => Some(Item::Class { orig: format!("\u{feff}{orig}"), obf: obf.clone() }),
                    Item::HeaderKV { .. } | Item::SourceFileJson { .. } | Item::Method(_) | Item::Field { .. } => Some(Item::Noise(format!("\u{feff}{}", first.print()))),
                    _ => None,
                };
                if let Some(m) = marked {
                    ast.items[0] = m;
                    rep.count("files_starting_with_a_byte_order_mark", 1);
                }
            }
        }
        let term = *rng.pick(&Term::ALL);
        let trailing = rng.chance(1, 2);
        // Records need not be aligned with physical lines: the record iterator resumes right
        // behind the ':' of a class line and the '"}' of a sourceFile header. Now and then the
        // terminator after such an item is left out.
        let text = if case_idx % 3 == 0 {
            let mut out = Vec::new();
            let n = ast.items.len();
            let mut joined = 0u64;
            for (i, it) in ast.items.iter().enumerate() {
                out.extend_from_slice(it.print().as_bytes());
                let glue = matches!(it, Item::Class { .. } | Item::SourceFileJson { .. }) && i + 1 < n && rng.chance(1, 3);
                if glue {
                    joined += 1;
                } else if i + 1 < n || trailing {
                    out.extend_from_slice(match term {
                        Term::Lf => b"\n".as_slice(),
                        Term::CrLf => b"\r\n",
                        Term::Cr => b"\r",
                        Term::Mixed => *rng.pick(&[b"\n".as_slice(), b"\r\n", b"\r"]),
                    });
                }
            }
            if joined > 0 {
                rep.count("files_with_records_not_aligned_to_lines", 1);
            }
            out
        } else {
            ast.print(term, trailing, &mut rng)
        };
        let exp = folds(&ast);
        let r = guarded(|| {
            let s = cur::summary(&text);
            let hli = cur::has_line_info(&text);
            let valid = cur::is_valid(&text);
            rep.count("evaluations", 3);
            let (m1, m2) = cur::metadata_twice(&text);
            rep.count("evaluations", 2);
            if m1 != (hli, valid, s.clone()) || m2 != m1 {
                let mut d = Json::obj();
                d.set("mapping_head", text_json(&text[..text.len().min(2000)]));
                d.set("first", Json::s(format!("{m1:?}")));
                d.set("second", Json::s(format!("{m2:?}")));
                rep.violation(case_idx, "folds", "metadata answers change when asked again, in another order or on a clone", d);
            }
            rep.count("files", 1);
            {
                let mapped: Vec<&MethodEntry> = ast.items.iter().filter_map(|i| if let Item::Method(m) = i { m.usable().map(|_| m) } else { None }).collect();
                if !mapped.is_empty() && mapped.iter().all(|m| m.orig == m.obf && m.ostart == m.start) {
                    rep.count("files_whose_only_line_mappings_are_identity_mappings_of_kept_members", 1);
                }
            }
            if exp.class_count > 65_535 {
                rep.count("files_with_more_than_65535_class_records", 1);
            }
            {
                let mut seen = std::collections::HashSet::new();
                if ast.items.iter().any(|i| matches!(i, Item::Class { obf, .. } if !seen.insert(obf.clone()))) {
                    rep.count("files_with_a_repeated_obfuscated_class_name", 1);
                }
                let mut seen = std::collections::HashSet::new();
                if ast.items.iter().any(|i| matches!(i, Item::Method(m) if !seen.insert(Item::Method(m.clone()).print()))) {
                    rep.count("files_with_a_repeated_method_line", 1);
                }
            }
            rep.distinct(Fp::new().bytes(&text).get());
            // where does the decisive record lie
            let nonblank: Vec<&Item> = ast.items.iter().filter(|i| !matches!(i, Item::Blank)).collect();
            if let Some(p) = nonblank.iter().position(|i| matches!(i, Item::Method(m) if m.usable().is_some())) {
                if p >= 50 {
                    rep.count("files_first_mapped_method_beyond_item_50", 1);
                }
                if nonblank[..p].iter().any(|i| matches!(i, Item::Noise(_))) {
                    rep.count("files_first_mapped_method_after_error_lines", 1);
                }
                if p + 1 == nonblank.len() && !trailing {
                    rep.count("files_first_mapped_method_in_unterminated_last_line", 1);
                }
            }
            if let Some(p) = nonblank.iter().position(|i| matches!(i, Item::Class { .. })) {
                if (47..=52).contains(&p) {
                    rep.count("files_first_class_at_item_47_to_52", 1);
                }
            }
            let mk = || {
                let mut d = Json::obj();
                d.set("mapping_head", text_json(&text[..text.len().min(3000)]));
                d.set("mapping_len", Json::i(text.len() as u64));
                d.set("terminator", Json::s(term.name()));
                d.set("expected", Json::s(format!("{exp:?}")));
                d.set("actual", Json::s(format!("has_line_info={hli} is_valid={valid} summary={s:?}")));
                d
            };
            if hli != exp.has_line_info {
                let w = if exp.has_line_info { "false although a method carries a line mapping" } else { "true although no method carries a line mapping" };
                rep.violation(case_idx, "folds", &format!("has_line_info is {w}"), mk());
            }
            if s.class_count != exp.class_count {
                rep.violation(case_idx, "folds", "summary class_count differs from the number of class records", mk());
            }
            if s.method_count != exp.method_count {
                rep.violation(case_idx, "folds", "summary method_count differs from the number of method records", mk());
            }
            if s.compiler != exp.compiler {
                rep.violation(case_idx, "folds", "summary compiler is not the value of the last compiler header", mk());
            }
            if s.compiler_version != exp.compiler_version {
                rep.violation(case_idx, "folds", "summary compiler_version is not the value of the last compiler_version header", mk());
            }
            if s.min_api != exp.min_api {
                rep.violation(case_idx, "folds", "summary min_api is not the value of the last min_api header", mk());
            }
            if valid != exp.is_valid {
                let w = if exp.is_valid { "false although a class is followed by a member within the first 50 items" } else { "true although no class is followed by a member within the first 50 items" };
                rep.violation(case_idx, "folds", &format!("is_valid is {w}"), mk());
            }
            if exp.is_valid {
                rep.count("files_valid", 1);
            } else {
                rep.count("files_invalid", 1);
            }
            if exp.has_line_info {
                rep.count("files_with_line_info", 1);
            } else {
                rep.count("files_without_line_info", 1);
            }
            if rep.wants_sample() && text.len() < 1500 {
                let mut sj = Json::obj();
                sj.set("mapping", text_json(&text));
                sj.set("expected", Json::s(format!("{exp:?}")));
                rep.sample(sj);
            }
        });
        if let Err(p) = r {
            panic_violation(rep, case_idx, "panic", &p, Json::obj());
        }
    }
}
