//! C11 — torn, foreign or wrong-version cache files are rejected, never
//! half-read. Fault enumeration: every prefix length of every generated file
//! and every single-field edit of the 24-byte header; expected error kind
//! from the independent layout walk.

use crate::common::*;
use crate::cur;
use crate::diffmon::*;
use crate::report::{Ctx, Reporter};
use crate::universe::from_records;
use pgvcore::ast::{is_representable, Gen, GenCfg, Term};
use pgvcore::decoder::*;
use pgvcore::util::{AlignedBuf, Fp, Json};

fn cfg_for(case: u64, slow: bool) -> GenCfg {
    let mut cfg = GenCfg::default();
    match case % 5 {
        0 => {
            cfg.min_blocks = 0;
            cfg.max_blocks = 1;
            cfg.max_items = 2;
        }
        1 => {
            cfg.max_blocks = if slow { 2 } else { 6 };
            cfg.max_items = 1;
        }
        _ => {
            cfg.max_blocks = if slow { 2 } else { 8 };
            cfg.max_items = if slow { 3 } else { 10 };
        }
    }
    cfg.long_names = !slow;
    cfg
}

fn kind_name(k: &ErrKind) -> &'static str {
    match k {
        ErrKind::WrongEndianness => "WrongEndianness",
        ErrKind::WrongFormat => "WrongFormat",
        ErrKind::WrongVersion => "WrongVersion",
        ErrKind::InvalidHeader => "InvalidHeader",
        ErrKind::InvalidClasses => "InvalidClasses",
        ErrKind::InvalidMembers => "InvalidMembers",
        ErrKind::UnexpectedStringBytes { .. } => "UnexpectedStringBytes",
    }
}

pub fn run(ctx: &Ctx, rep: &mut Reporter) {
    for case_idx in ctx.case_range() {
        let mut rng = ctx_rng(ctx, case_idx);
        let ast = Gen::new(&mut rng, cfg_for(case_idx, ctx.slow())).ast();
        if !is_representable(&ast) {
            continue;
        }
        let text = ast.print(Term::Lf, true, &mut rng);
        let r = guarded(|| check(&text, rep, case_idx, ctx.slow()));
        if let Err(p) = r {
            panic_violation(rep, case_idx, "panic", &p, mapping_detail(&text, ""));
        }
    }
}

fn check(text: &[u8], rep: &mut Reporter, case_idx: u64, slow: bool) {
    let bytes = cur::write_cache(text).expect("write to Vec");
    if bytes.len() > 8192 {
        rep.count("files_skipped_too_large", 1);
        return;
    }
    let buf = AlignedBuf::from_bytes(&bytes);
    let full = match cur::parse_cache(buf.as_slice()) {
        Ok(c) => c,
        Err(e) => {
            let mut d = mapping_detail(text, "");
            d.set("error", Json::s(format!("{e:?}")));
            rep.violation(case_idx, "cache-parse", "freshly written cache rejected", d);
            return;
        }
    };
    rep.count("files", 1);
    let layout = layout_walk(buf.as_slice(), 1).expect("own walk of a valid file");
    let (items, _) = cur::records(text, usize::MAX);
    let u = from_records(&items, false);
    let names = names_from_universe(&u);
    let mut r2 = pgvcore::rng::Rng::new(case_idx);
    let ex = make_extras(&names, &mut r2, 1, 1, 2);
    // ---- every strict prefix
    let step = if slow { 1 } else { 1 };
    let mut n = 0usize;
    while n < bytes.len() {
        let prefix = &buf.as_slice()[..n];
        let exp = layout_walk(prefix, 1);
        let got = cur::parse_cache(prefix);
        rep.count("evaluations", 1);
        rep.count("prefixes", 1);
        rep.distinct(Fp::new().bytes(&bytes).u64(n as u64).get());
        match (&got, &exp) {
            (Err(Ok(g)), Err(e)) => {
                rep.count(&format!("prefix_rejected_{}", kind_name(e)), 1);
                let acceptable = acceptable_errors(prefix, 1).unwrap_or_default();
                if !acceptable.iter().any(|a| same_kind(g, a)) {
                    let mut d = Json::obj();
                    d.set("file_len", Json::i(bytes.len() as u64));
                    d.set("prefix_len", Json::i(n as u64));
                    d.set("layout", Json::s(format!("{layout:?}")));
                    d.set("expected", Json::s(format!("{e:?}")));
                    d.set("actual", Json::s(format!("{g:?}")));
                    d.set("cache_hex", Json::s(pgvcore::util::hex(&bytes[..bytes.len().min(400)])));
                    let sig = if kind_name(g) == kind_name(e) {
                        format!("prefix rejected with {} carrying the wrong declared/available lengths", kind_name(g))
                    } else {
                        format!("prefix rejected with {} but the first section that does not fit calls for {}", kind_name(g), kind_name(e))
                    };
                    rep.violation(case_idx, "prefix-kind", &sig, d);
                }
            }
            (Err(Err(other)), _) => {
                let mut d = Json::obj();
                d.set("prefix_len", Json::i(n as u64));
                d.set("actual", Json::s(other.clone()));
                rep.violation(case_idx, "prefix-kind", "prefix rejected with an undocumented error kind", d);
            }
            (Ok(c), _) => {
                // accepted prefix: must answer every query exactly like the full file
                rep.count("prefixes_accepted", 1);
                let mk = || {
                    let mut d = mapping_detail(text, "");
                    d.set("prefix_len", Json::i(n as u64));
                    d.set("file_len", Json::i(bytes.len() as u64));
                    d
                };
                diff_remap(
                    &full,
                    c,
                    &u,
                    &ex,
                    &DiffOpts { la: "full file", lb: "accepted prefix", by_params: true, typed: true, signature_prefix: "accepted strict prefix: " },
                    rep,
                    case_idx,
                    0,
                    &mk,
                );
                if exp.is_err() {
                    rep.count("prefixes_accepted_although_layout_does_not_fit", 1);
                }
            }
            (Err(Ok(_)), Ok(_)) => {
                // the walk says it fits but the parser rejects: stricter than documented, not a C11 violation
                rep.count("prefixes_rejected_although_layout_fits", 1);
            }
        }
        n += step;
    }
    // ---- strict prefixes placed at every address residue modulo 8 (a cache embedded in a
    // larger blob, a Vec<u32>-backed buffer): rejected, or answering like the full file
    {
        let mut padded = vec![0u8; bytes.len() + 8];
        for skew in 1..8usize {
            padded.iter_mut().for_each(|b| *b = 0);
            padded[skew..skew + bytes.len()].copy_from_slice(&bytes);
            let holder = AlignedBuf::from_bytes(&padded);
            let lens: Vec<usize> = if skew == 4 {
                (0..bytes.len()).collect()
            } else {
                [0usize, 23, 24, bytes.len().saturating_sub(4), bytes.len().saturating_sub(1)].into_iter().filter(|n| *n < bytes.len()).collect()
            };
            for n in lens {
                let prefix = &holder.as_slice()[skew..skew + n];
                rep.count("evaluations", 1);
                rep.count("prefixes_at_unaligned_addresses", 1);
                if let Ok(c) = cur::parse_cache(prefix) {
                    rep.count("prefixes_accepted_at_unaligned_addresses", 1);
                    let mk = || {
                        let mut d = mapping_detail(text, "");
                        d.set("prefix_len", Json::i(n as u64));
                        d.set("file_len", Json::i(bytes.len() as u64));
                        d.set("address_modulo_8", Json::i(skew as u64));
                        d
                    };
                    diff_remap(
                        &full,
                        &c,
                        &u,
                        &ex,
                        &DiffOpts { la: "full file", lb: "accepted prefix", by_params: true, typed: true, signature_prefix: "accepted strict prefix at an address that is not 8-byte aligned: " },
                        rep,
                        case_idx,
                        0,
                        &mk,
                    );
                }
            }
        }
    }
    // ---- single-field header edits
    let hdr = layout.hdr;
    let mut edits: Vec<(usize, &str, u32)> = vec![];
    edits.push((0, "magic", MAGIC.swap_bytes()));
    edits.push((0, "magic", 0));
    edits.push((0, "magic", u32::from_le_bytes(*b"PRGD")));
    for v in [0u32, 2, u32::MAX, 0x0001_0001, 0x8000_0001, 0x0000_0101, 0x0100_0000, 3] {
        edits.push((4, "version", v));
    }
    // every single-bit flip of the 24-byte header
    for (off, name, cur_v) in [
        (0usize, "magic", hdr.magic),
        (4, "version", hdr.version),
        (8, "num_classes", hdr.num_classes),
        (12, "num_members", hdr.num_members),
        (16, "num_by_params", hdr.num_by_params),
        (20, "string_bytes", hdr.string_bytes),
    ] {
        for bit in 0..32 {
            edits.push((off, name, cur_v ^ (1u32 << bit)));
        }
    }
    for (off, name, cur_v) in [(8usize, "num_classes", hdr.num_classes), (12, "num_members", hdr.num_members), (16, "num_by_params", hdr.num_by_params), (20, "string_bytes", hdr.string_bytes)] {
        for v in [0u32, cur_v.wrapping_sub(1), cur_v.wrapping_add(1), cur_v.wrapping_add(1000), 1 << 31, u32::MAX] {
            edits.push((off, name, v));
        }
    }
    for (off, name, v) in edits {
        let mut e = buf.clone();
        wr32(e.as_mut_slice(), off, v);
        let exp = layout_walk(e.as_slice(), 1);
        let got = cur::parse_cache(e.as_slice());
        rep.count("evaluations", 1);
        rep.count(&format!("header_edits_{name}"), 1);
        match (&got, &exp) {
            (Err(Ok(g)), Err(x)) => {
                rep.count(&format!("edit_rejected_{}", kind_name(x)), 1);
                let acceptable = acceptable_errors(e.as_slice(), 1).unwrap_or_default();
                if !acceptable.iter().any(|a| same_kind(g, a)) {
                    let mut d = Json::obj();
                    d.set("field", Json::s(name));
                    d.set("value", Json::i(v as u64));
                    d.set("header", Json::s(format!("{hdr:?}")));
                    d.set("file_len", Json::i(bytes.len() as u64));
                    d.set("expected", Json::s(format!("{x:?}")));
                    d.set("actual", Json::s(format!("{g:?}")));
                    let sig = if kind_name(g) == kind_name(x) {
                        format!("header edit of {name}: rejected with {} carrying the wrong declared/available lengths", kind_name(g))
                    } else {
                        format!("header edit of {name}: rejected with {} instead of {}", kind_name(g), kind_name(x))
                    };
                    rep.violation(case_idx, "header-edit", &sig, d);
                }
            }
            (Ok(_), Err(x)) => {
                let mut d = Json::obj();
                d.set("field", Json::s(name));
                d.set("value", Json::i(v as u64));
                d.set("header", Json::s(format!("{hdr:?}")));
                d.set("file_len", Json::i(bytes.len() as u64));
                d.set("expected", Json::s(format!("{x:?}")));
                rep.violation(case_idx, "header-edit", &format!("header edit of {name}: accepted although {} is called for", kind_name(x)), d);
            }
            (Err(Err(other)), _) => {
                let mut d = Json::obj();
                d.set("field", Json::s(name));
                d.set("actual", Json::s(other.clone()));
                rep.violation(case_idx, "header-edit", "rejected with an undocumented error kind", d);
            }
            (Ok(_), Ok(_)) => rep.count("edits_still_fitting_accepted", 1),
            (Err(Ok(_)), Ok(_)) => rep.count("edits_still_fitting_rejected", 1),
        }
    }
    // ---- headers in which magic AND version are foreign (a file from a machine of the other
    // byte order has every field swapped; a zero-filled or text file has neither): the magic
    // decides — byte-swapped magic is an endianness error, any other magic a format error,
    // whatever the version field holds
    {
        let swapped_header = |b: &mut [u8]| {
            for i in 0..6 {
                let v = rd32(b, i * 4).swap_bytes();
                wr32(b, i * 4, v);
            }
        };
        let mut cases: Vec<(String, AlignedBuf)> = vec![];
        for (mname, mv) in [("byte-swapped magic", MAGIC.swap_bytes()), ("zero magic", 0u32), ("magic PRGD", u32::from_le_bytes(*b"PRGD"))] {
            for vv in [1u32.swap_bytes(), 0, 2, u32::MAX] {
                let mut e = buf.clone();
                wr32(e.as_mut_slice(), 0, mv);
                wr32(e.as_mut_slice(), 4, vv);
                cases.push((format!("{mname}, version {vv:#x}"), e));
            }
        }
        let mut e = buf.clone();
        swapped_header(e.as_mut_slice());
        cases.push(("whole header byte-swapped".into(), e));
        cases.push(("zero-filled file".into(), AlignedBuf::from_bytes(&vec![0u8; bytes.len().max(24)])));
        let mut t = text.to_vec();
        t.resize(t.len().max(24), b'\n');
        cases.push(("the text mapping itself".into(), AlignedBuf::from_bytes(&t)));
        for (what, e) in cases {
            let exp = layout_walk(e.as_slice(), 1);
            let got = cur::parse_cache(e.as_slice());
            rep.count("evaluations", 1);
            rep.count("headers_with_foreign_magic_and_version", 1);
            let ok = match (&got, &exp) {
                (Err(Ok(g)), Err(x)) => kind_name(g) == kind_name(x),
                _ => false,
            };
            if !ok {
                let mut d = Json::obj();
                d.set("buffer", Json::s(what.clone()));
                d.set("expected", Json::s(format!("{exp:?}")));
                d.set("actual", Json::s(format!("{:?}", got.as_ref().map(|_| "accepted"))));
                let exp_name = exp.as_ref().err().map(kind_name).unwrap_or("?");
                rep.violation(case_idx, "header-edit", &format!("foreign magic and version: not rejected with {exp_name}"), d);
            }
        }
    }
    if rep.wants_sample() {
        let mut s = Json::obj();
        s.set("layout", Json::s(format!("{layout:?}")));
        s.set("file_len", Json::i(bytes.len() as u64));
        s.set("faults", Json::s("every prefix length 0..len-1, 35 listed header edits, all 192 single-bit flips of the header"));
        rep.sample(s);
    }
}
