//! C14 — cache serialisation is a deterministic function of the mapping
//! bytes. Oracle: byte equality within a process, across threads, and across
//! separately started worker processes (digests compared by the driver);
//! output length equals the length implied by its own header.

use crate::common::*;
use crate::cur;
use crate::props::c02::{corpus_window, load_corpus, CORPUS};
use crate::report::{Ctx, Reporter};
use pgvcore::ast::{Gen, GenCfg, Term};
use pgvcore::decoder::layout_walk;
use pgvcore::mutate::mutate_tokens;
use pgvcore::rng::{mix, Rng};
use pgvcore::util::{fnv1a, hex, sha1, Fp, Json};
use std::sync::Arc;

/// Shard-independent inputs: every worker process serialises the same mappings.
fn gen_input(seed: u64, case: u64, slow: bool) -> (String, Vec<u8>) {
    let mut rng = Rng::new(mix(&[seed, fnv1a(b"C14-shared"), case]));
    if case == 0 && !slow {
        // more member records than any plausible retained-buffer or table-size threshold (2^15)
        let n = 34_000 + rng.below(2_000);
        return ("ast-huge-group".into(), pgvcore::ast::huge_group_ast(&mut rng, n).print_lf());
    }
    if case == 1 && !slow {
        // thousands of class records (more than any plausible threshold for switching to a
        // parallel or batched conversion), most with a sourceFile header and a few members
        let n = 4_100 + rng.below(1_500);
        let mut t = String::with_capacity(n * 120);
        for i in 0..n {
            t.push_str(&format!("com.example.pkg{}.Klass{} -> k.{}:\n", i % 37, i, pgvcore::util::hex(&(i as u32).to_be_bytes())));
            if i % 3 != 0 {
                t.push_str(&format!("# {{\"id\":\"sourceFile\",\"fileName\":\"Klass{}.kt\"}}\n", i % 500));
            }
            for j in 0..(i % 4) {
                t.push_str(&format!("    {}:{}:void method{}(int,java.lang.String):{}:{} -> {}\n", 1 + j * 5, 4 + j * 5, (i + j) % 11, 100 + j, 103 + j, ["a", "b", "c"][j % 3]));
            }
        }
        return ("many-classes".into(), t.into_bytes());
    }
    if case % 8 == 2 {
        // what hash containers keyed by ORIGINAL names see: several class records that share
        // an original name (concatenated per-module mappings) with different source files,
        // classes nested in them with and without a header of their own, kept classes
        let mut t = String::new();
        let outers = ["com.example.Main", "com.example.util.Helper", "Dotless", "org.x.Worker"];
        let k = 2 + rng.below(3);
        let mut n = 0;
        for r in 0..k {
            for (oi, o) in outers.iter().enumerate() {
                if rng.chance(1, 4) {
                    continue;
                }
                n += 1;
                t.push_str(&format!("{o} -> m{r}.c{oi}:\n"));
                if rng.chance(3, 4) {
                    t.push_str(&format!("# {{\"id\":\"sourceFile\",\"fileName\":\"{}{}.{}\"}}\n", o.rsplit('.').next().unwrap(), r, ["kt", "java"][r % 2]));
                }
                t.push_str(&format!("    1:3:void run{r}(int):1{r}:1{r} -> a\n"));
                for inner in ["Inner", "Companion", "1"] {
                    if rng.chance(1, 2) {
                        n += 1;
                        t.push_str(&format!("{o}${inner} -> m{r}.c{oi}${}:\n", &inner[..1].to_lowercase()));
                        if rng.chance(1, 4) {
                            t.push_str("# {\"id\":\"sourceFile\",\"fileName\":\"Own.kt\"}\n");
                        }
                        t.push_str(&format!("    void {}.helper() -> b\n    int get() -> c\n", o));
                    }
                }
            }
        }
        let _ = n;
        t.push_str("com.example.Kept -> com.example.Kept:\n    void keep() -> keep\n");
        return ("shared-original-names".into(), t.into_bytes());
    }
    match case % 4 {
        0 | 1 => {
            let mut cfg = GenCfg::default();
            cfg.max_blocks = if slow { 3 } else { 25 };
            cfg.max_items = 14;
            cfg.inline_pct = 10;
            cfg.dup_class_pct = 15;
            // many repeated (obf, args, original) keys and shared strings: what the hash containers hold
            let ast = Gen::new(&mut rng, cfg).ast();
            let t = *rng.pick(&Term::ALL);
            ("ast".into(), ast.print(t, true, &mut rng))
        }
        2 => {
            let mut cfg = GenCfg::default();
            cfg.max_blocks = if slow { 2 } else { 10 };
            cfg.hostile = true;
            let ast = Gen::new(&mut rng, cfg).ast();
            let base = ast.print(Term::Lf, true, &mut rng);
            let k = 1 + rng.below(6);
            ("token-mutated".into(), mutate_tokens(&base, &mut rng, k, false))
        }
        _ => {
            let i = rng.below(CORPUS.len());
            let d = load_corpus(i);
            (format!("corpus-window:{}", CORPUS[i]), corpus_window(&d, &mut rng, if slow { 30 } else { 400 }))
        }
    }
}

pub fn run(ctx: &Ctx, rep: &mut Reporter) -> Json {
    let mut extra = Json::obj();
    // vary this process's allocation history (shard dependent)
    let mut garbage: Vec<Vec<u8>> = vec![];
    let mut gr = Rng::new(ctx.case_seed(u64::MAX - 1));
    for _ in 0..(if ctx.slow() { 4 } else { 200 }) {
        garbage.push(vec![gr.next_u64() as u8; 1 + gr.below(5000)]);
        if gr.chance(1, 3) {
            garbage.swap_remove(gr.below(garbage.len()));
        }
    }
    let mut all_digests = String::new();
    for case_idx in ctx.case_range() {
        let (kind, text) = gen_input(ctx.seed, case_idx, ctx.slow());
        let text = Arc::new(text);
        let r = guarded(|| {
            let a = cur::write_cache(&text).expect("write to Vec");
            let b = cur::write_cache(&text).expect("write to Vec");
            rep.count("evaluations", 2);
            rep.count("mappings", 1);
            if kind == "shared-original-names" {
                rep.count("mappings_with_class_records_sharing_an_original_name", 1);
            }
            if kind == "many-classes" {
                rep.count("mappings_with_more_than_4096_classes", 1);
            }
            rep.count("writes", 2);
            let mk = |what: &str, x: &[u8], y: &[u8]| {
                let mut d = mapping_detail(&text[..text.len().min(6000)], &kind);
                d.set("what", Json::s(what));
                d.set("len_a", Json::i(x.len() as u64));
                d.set("len_b", Json::i(y.len() as u64));
                let pos = x.iter().zip(y.iter()).position(|(p, q)| p != q).unwrap_or(x.len().min(y.len()));
                d.set("first_difference_at", Json::i(pos as u64));
                d
            };
            if a != b {
                rep.violation(case_idx, "determinism", "two serialisations of the same mapping in one process differ", mk("same process", &a, &b));
            }
            match layout_walk(&a, 1) {
                Ok(l) if l.implied_len == a.len() => {}
                other => {
                    let mut d = mapping_detail(&text[..text.len().min(6000)], &kind);
                    d.set("len", Json::i(a.len() as u64));
                    d.set("walk", Json::s(format!("{other:?}")));
                    rep.violation(case_idx, "implied-length", "output length differs from the length implied by its own header", d);
                }
            }
            // history: the thread's previous write was a FAILED write of another mapping
            {
                use pgvcore::sinks::{FaultSink, Schedule};
                for at in [1usize, 3, 6, 9] {
                    let mut sink = FaultSink::new(Schedule::FailAt(at));
                    let failed = cur::write_cache_to(OTHER_MAPPING, &mut sink).is_err();
                    let c = cur::write_cache(&text).expect("write to Vec");
                    rep.count("evaluations", 1);
                    rep.count("writes", 1);
                    if failed {
                        rep.count("writes_after_a_failed_write_of_another_mapping", 1);
                    }
                    if c != a {
                        rep.violation(case_idx, "determinism", "the serialisation that follows a failed write of another mapping on the same thread differs", mk("after a failed write of another mapping", &a, &c));
                    }
                }
            }
            // two other kinds of destination: a sink that only implements `write` (what every
            // user-defined writer looks like) and a pre-sized cursor
            {
                struct Plain(Vec<u8>);
                impl std::io::Write for Plain {
                    fn write(&mut self, b: &[u8]) -> std::io::Result<usize> {
                        self.0.extend_from_slice(b);
                        Ok(b.len())
                    }
                    fn flush(&mut self) -> std::io::Result<()> {
                        Ok(())
                    }
                }
                let mut p = Plain(vec![]);
                let rp = cur::write_cache_to(&text, &mut p);
                let mut cur_buf = std::io::Cursor::new(vec![0xAAu8; a.len()]);
                let rc = cur::write_cache_to(&text, &mut cur_buf);
                rep.count("evaluations", 2);
                rep.count("writes", 2);
                rep.count("writes_into_other_kinds_of_sink", 2);
                if rp.is_err() || p.0 != a {
                    rep.violation(case_idx, "determinism", "serialisation into a plain write-only sink differs from the one into a Vec", mk("plain write-only sink", &a, &p.0));
                }
                if rc.is_err() || cur_buf.get_ref() != &a {
                    rep.violation(case_idx, "determinism", "serialisation into a pre-sized Cursor differs from the one into a Vec", mk("cursor", &a, cur_buf.get_ref()));
                }
            }
            // the same bytes at eight different address alignments (and hence different
            // positions relative to any word-at-a-time scanning inside the parser)
            {
                let mut pad = vec![0u8; text.len() + 16];
                let base = pad.as_ptr() as usize;
                for off in 0..8usize {
                    let start = (8 - base % 8) % 8 + off;
                    pad[start..start + text.len()].copy_from_slice(&text);
                    let c = cur::write_cache(&pad[start..start + text.len()]).expect("write to Vec");
                    rep.count("evaluations", 1);
                    rep.count("writes", 1);
                    rep.count("writes_from_shifted_addresses", 1);
                    if c != a {
                        let mut d = mk("same bytes at another address", &a, &c);
                        d.set("address_offset_mod_8", Json::i(off as u64));
                        rep.violation(case_idx, "determinism", "serialisations of the same bytes placed at different addresses differ", d);
                    }
                }
                if !text.is_ascii() {
                    rep.count("non_ascii_mappings_written_from_shifted_addresses", 1);
                }
            }
            // concurrent writers
            let nthreads = if ctx.slow() { 2 } else { 8 };
            let hs: Vec<_> = (0..nthreads)
                .map(|_| {
                    let t = text.clone();
                    std::thread::spawn(move || cur::write_cache(&t).expect("write to Vec"))
                })
                .collect();
            for h in hs {
                let c = h.join().expect("writer thread");
                rep.count("evaluations", 1);
                rep.count("writes", 1);
                rep.count("threaded_writes", 1);
                if c != a {
                    rep.violation(case_idx, "determinism", "serialisations from concurrently running threads differ", mk("threads", &a, &c));
                }
            }
            // how much the hash containers held: distinct strings and dedup keys
            let l = layout_walk(&a, 1).ok();
            if let Some(l) = l {
                if l.hdr.num_by_params >= 10 {
                    rep.count("mappings_with_ge10_by_params_entries", 1);
                    rep.distinct(Fp::new().bytes(&text).get());
                }
            }
            hex(&sha1(&a))
        });
        match r {
            Ok(d) => {
                all_digests.push_str(&d);
                if rep.wants_sample() {
                    let mut s = Json::obj();
                    s.set("kind", Json::s(kind.clone()));
                    s.set("mapping_len", Json::i(text.len() as u64));
                    s.set("cache_sha1", Json::s(d));
                    rep.sample(s);
                }
            }
            Err(p) => {
                all_digests.push_str("panic");
                panic_violation(rep, case_idx, "panic", &p, mapping_detail(&text[..text.len().min(4000)], &kind));
            }
        }
    }
    drop(garbage);
    if ctx.only_case.is_none() {
        extra.set("same_across_shards:digest_of_all_cache_files", Json::s(hex(&sha1(all_digests.as_bytes()))));
    }
    extra.set("processes", Json::i(1));
    extra
}
