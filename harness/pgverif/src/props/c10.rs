//! C10 — version-1 cache files mean the same to every release that accepts
//! them. Oracle: cross-version differential; the frozen 5.5.0 snapshot is
//! linked into the same process as `proguard_pinned`. The history "a file
//! outlives the code that wrote it" is the pair (writer release, reader
//! release) over all four combinations.

use crate::common::*;
use crate::diffmon::*;
use crate::props::c02::gen_input;
use crate::report::{Ctx, Reporter};
use crate::universe::from_records;
use crate::{cur, pin};
use pgvcore::decoder::ErrKind;
use pgvcore::util::{AlignedBuf, Json};

pub fn run(ctx: &Ctx, rep: &mut Reporter) {
    for case_idx in ctx.case_range() {
        let mut rng = ctx_rng(ctx, case_idx);
        let (kind, text) = gen_input(ctx, case_idx, &mut rng);
        // planning only: the universe comes from the pinned parser so that it does
        // not change with the tree under test
        let (items, _) = pin::records(&text, usize::MAX);
        let u = from_records(&items, !ctx.slow() && text.len() < 100_000);
        drop(items);
        if !u.in_domain {
            rep.count("out_of_domain_rejected", 1);
            continue;
        }
        let names = names_from_universe(&u);
        let (nt, ns) = if ctx.slow() { (1, 2) } else { (3, 6) };
        let ex = make_extras(&names, &mut rng, nt, 0, ns);
        rep.count("files", 1);
        for writer in ["pinned", "current"] {
            let r = guarded(|| {
                let bytes = if writer == "pinned" { pin::write_cache(&text) } else { cur::write_cache(&text) };
                let bytes = bytes.expect("write to Vec");
                let buf = AlignedBuf::from_bytes(&bytes);
                let rc = cur::parse_cache(buf.as_slice());
                let rp = pin::parse_cache(buf.as_slice());
                rep.count("evaluations", 2);
                rep.count(&format!("pairs_writer_{writer}_reader_current"), 1);
                rep.count(&format!("pairs_writer_{writer}_reader_pinned"), 1);
                let mk = || {
                    let mut d = mapping_detail(&text[..text.len().min(8000)], &kind);
                    d.set("writer", Json::s(writer));
                    d
                };
                match (&rc, &rp) {
                    (Ok(c), Ok(p)) => {
                        rep.count("files_both_readers_accept", 1);
                        rep.count("files_accepted_by_both_or_rejected_with_wrong_version", 1);
                        diff_remap(
                            p,
                            c,
                            &u,
                            &ex,
                            &DiffOpts {
                                la: "pinned reader",
                                lb: "current reader",
                                by_params: true,
                                typed: false,
                                signature_prefix: if writer == "pinned" { "file written by pinned release: " } else { "file written by current tree: " },
                            },
                            rep,
                            case_idx,
                            ast_fp(&bytes),
                            &mk,
                        );
                    }
                    (a, b) => {
                        for (who, r) in [("current reader", a.as_ref().err()), ("pinned reader", b.as_ref().err())] {
                            match r {
                                None => {}
                                Some(Ok(ErrKind::WrongVersion)) => {
                                    rep.count("rejected_with_wrong_version", 1);
                                    rep.count("files_accepted_by_both_or_rejected_with_wrong_version", 1);
                                    rep.distinct(pgvcore::util::Fp::new().bytes(&bytes).str(who).get());
                                }
                                Some(e) => {
                                    let mut d = mk();
                                    d.set("reader", Json::s(who));
                                    d.set("error", Json::s(format!("{e:?}")));
                                    rep.violation(
                                        case_idx,
                                        "cross-version",
                                        &format!("file written by {writer} rejected by {who} with an error other than WrongVersion"),
                                        d,
                                    );
                                }
                            }
                        }
                    }
                }
            });
            if let Err(p) = r {
                panic_violation(rep, case_idx, "panic", &p, mapping_detail(&text[..text.len().min(4000)], &kind));
            }
        }
        if rep.wants_sample() {
            let mut s = Json::obj();
            s.set("kind", Json::s(kind.clone()));
            s.set("mapping_head", crate::report::text_json(&text[..text.len().min(400)]));
            s.set("pairs", Json::s("(pinned writer | current writer) x (pinned reader, current reader)"));
            rep.sample(s);
        }
    }
}
