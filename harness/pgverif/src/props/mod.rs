pub mod c01;
pub mod c02;
pub mod c03;
pub mod c04;
