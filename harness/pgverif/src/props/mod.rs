pub mod c01;
pub mod c02;
pub mod c03;
pub mod c04;
pub mod c05;
pub mod c06;
pub mod c07;
pub mod c08;
