pub mod c01;
