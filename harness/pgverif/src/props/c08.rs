//! C08 — typed stack-trace remapping keeps every element and agrees with the
//! text API. Oracles: reference model M (clause 1), differential typed-vs-text
//! on canonical printed traces (clause 2).

use crate::api::*;
use crate::common::*;
use crate::cur;
use crate::report::{Ctx, Reporter};
use pgvcore::ast::{is_representable, Gen};
use pgvcore::model::Model;
use pgvcore::traces::*;
use pgvcore::util::{AlignedBuf, Fp, Json};

pub fn run(ctx: &Ctx, rep: &mut Reporter) {
    for case_idx in ctx.case_range() {
        let mut rng = ctx_rng(ctx, case_idx);
        let mut cfg = crate::props::c01::cfg_for(case_idx);
        if ctx.slow() {
            cfg.max_blocks = 3;
        }
        let ast = if case_idx % 16 == 5 && !ctx.slow() {
            // a method with dozens to hundreds of ranged entries: frames on it whose line no
            // entry covers must be kept, like any other frame that does not resolve
            rep.count("mappings_with_a_method_of_more_than_32_ranged_entries", 1);
            let n = *rng.pick(&[33usize, 40, 64, 100, 300]);
            pgvcore::ast::ranged_group_ast(&mut rng, n)
        } else {
            Gen::new(&mut rng, cfg).ast()
        };
        if !is_representable(&ast) {
            continue;
        }
        let model = Model::new(&ast);
        let names = names_of(&ast);
        let text = ast.print(*rng.pick(&pgvcore::ast::Term::ALL), true, &mut rng);
        let g = TraceGen { names: &names };
        let n = if ctx.slow() { 3 } else { 16 };
        let traces: Vec<(bool, TTrace)> = (0..n)
            .map(|i| {
                let canonical = i % 2 == 0;
                (canonical, g.trace_top(&mut rng, canonical))
            })
            .collect();
        let r = guarded(|| check(&text, &model, &traces, rep, case_idx));
        if let Err(p) = r {
            panic_violation(rep, case_idx, "panic", &p, mapping_detail(&text, ""));
        }
    }
}

fn expected_frames(model: &Model<'_>, t: &TTrace) -> Vec<TFrame> {
    let mut out = vec![];
    let mut buf = vec![];
    for f in &t.frames {
        // the model ties the query-file lifetime to the AST; use a marker and substitute
        const MARK: &str = "\u{1}QF\u{1}";
        model.frames_by_line(&f.class, &f.method, f.line as u128, if f.file.is_some() { Some(MARK) } else { None }, &mut buf);
        if buf.is_empty() {
            out.push(f.clone());
        } else {
            for m in &buf {
                let file = match m.file {
                    Some(x) if x == MARK => f.file.clone(),
                    Some(x) => Some(x.to_string()),
                    None => None,
                };
                out.push(TFrame { class: m.class.to_string(), method: m.method.to_string(), file, line: m.line as u64, params: None });
            }
        }
    }
    out
}

fn check_level(model: &Model<'_>, inp: &TTrace, got: &TTrace, level: usize, who: &str, rep: &mut Reporter, case_idx: u64, mk: &dyn Fn() -> Json) -> (usize, usize) {
    let mut unknown_throwables = 0;
    let mut resolved = 0;
    if let Some(e) = &inp.exception {
        if model.class(&e.class).is_none() {
            unknown_throwables += 1;
        }
    }
    match (&inp.exception, &got.exception) {
        (None, None) => {}
        (Some(e), Some(g)) => {
            let remapped = model.class(&e.class).map(|o| TThrowable { class: o.to_string(), message: e.message.clone() });
            if Some(g) != remapped.as_ref() && g != e {
                let mut d = mk();
                d.set("level", Json::i(level as u64));
                d.set("input_throwable", Json::s(e.print()));
                d.set("actual_throwable", Json::s(g.print()));
                rep.violation(case_idx, "typed-model", &format!("typed remapping: throwable neither remapped nor kept impl={who}"), d);
            }
        }
        (Some(e), None) => {
            let known = model.class(&e.class).is_some();
            let mut d = mk();
            d.set("level", Json::i(level as u64));
            d.set("input_throwable", Json::s(e.print()));
            let what = if known { "a throwable whose class is known" } else { "a throwable whose class is not in the mapping" };
            rep.violation(case_idx, "typed-model", &format!("typed remapping dropped {what} impl={who}"), d);
        }
        (None, Some(g)) => {
            let mut d = mk();
            d.set("actual_throwable", Json::s(g.print()));
            rep.violation(case_idx, "typed-model", &format!("typed remapping invented a throwable impl={who}"), d);
        }
    }
    let exp = expected_frames(model, inp);
    if exp != inp.frames {
        resolved += 1;
    }
    if got.frames != exp {
        let mut d = mk();
        d.set("level", Json::i(level as u64));
        d.set("expected_frames", Json::Arr(exp.iter().map(|f| Json::s(f.print())).collect()));
        d.set("actual_frames", Json::Arr(got.frames.iter().map(|f| Json::s(f.print())).collect()));
        let kind = if got.frames.len() < exp.len() { "frames missing" } else if got.frames.len() > exp.len() { "extra frames" } else { "frame differs" };
        rep.violation(case_idx, "typed-model", &format!("typed remapping: frame list differs from model ({kind}) impl={who}"), d);
    }
    match (&inp.cause, &got.cause) {
        (Some(a), Some(b)) => {
            let (u, r) = check_level(model, a, b, level + 1, who, rep, case_idx, mk);
            unknown_throwables += u;
            resolved += r;
        }
        (None, None) => {}
        _ => {
            let mut d = mk();
            d.set("level", Json::i(level as u64));
            rep.violation(case_idx, "typed-model", &format!("typed remapping changed the cause-chain depth impl={who}"), d);
        }
    }
    (unknown_throwables, resolved)
}

fn check(text: &[u8], model: &Model<'_>, traces: &[(bool, TTrace)], rep: &mut Reporter, case_idx: u64) {
    let m = cur::mapper(text, false);
    let bytes = cur::write_cache(text).expect("write to Vec");
    let buf = AlignedBuf::from_bytes(&bytes);
    let cache = match cur::parse_cache(buf.as_slice()) {
        Ok(c) => c,
        Err(e) => {
            let mut d = mapping_detail(text, "");
            d.set("error", Json::s(format!("{e:?}")));
            rep.violation(case_idx, "cache-parse", "freshly written cache rejected", d);
            return;
        }
    };
    for (canonical, t) in traces {
        for which in 0..2 {
            let who = ["mapper", "cache"][which];
            let got = if which == 0 { m.typed(t) } else { cache.typed(t) };
            rep.count("evaluations", 1);
            let mk = || {
                let mut d = mapping_detail(text, "");
                d.set("implementation", Json::s(who));
                d.set("input_trace", Json::s(t.print()));
                d
            };
            let (unk, res) = check_level(model, t, &got, 0, who, rep, case_idx, &mk);
            rep.count("levels_checked", t.depth() as u64 + 1);
            if unk > 0 && res > 0 {
                rep.count("traces_with_unknown_throwable_and_resolved_frame", 1);
                rep.distinct(Fp::new().bytes(text).str(&t.print()).u64(which as u64).get());
            }
            if *canonical {
                let printed = cur::typed_print(t);
                let via_text = if which == 0 { m.text(&printed) } else { cache.text(&printed) };
                let via_typed = cur::typed_print(&got);
                rep.count("evaluations", 1);
                rep.count("canonical_pairs_compared", 1);
                if via_text.as_deref() != Ok(via_typed.as_str()) {
                    let mut d = mk();
                    d.set("printed_input", Json::s(printed.clone()));
                    d.set("typed_result_printed", Json::s(via_typed.clone()));
                    d.set("text_api_output", Json::s(format!("{via_text:?}")));
                    rep.violation(case_idx, "typed-vs-text", &format!("printed typed result differs from the text API's output on the printed input impl={who}"), d);
                }
            }
        }
        if rep.wants_sample() {
            let mut s = Json::obj();
            s.set("trace", Json::s(t.print()));
            s.set("canonical", Json::Bool(*canonical));
            rep.sample(s);
        }
    }
}
