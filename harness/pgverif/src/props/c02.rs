//! C02 — a cache written from a mapping answers every query exactly like the
//! mapper. Oracle: differential (the mapper is the reference), over
//! grammar-generated, token-mutated and corpus files in the representable
//! domain; plus mapper-with-index vs mapper-without-index on line queries.

use crate::common::*;
use crate::cur;
use crate::diffmon::*;
use crate::report::{Ctx, Reporter, Tier};
use crate::universe::{from_records, Universe};
use pgvcore::ast::{is_representable, Gen, Term};
use pgvcore::mutate::{mutate_tokens, to_crlf};
use pgvcore::rng::Rng;
use pgvcore::util::{AlignedBuf, Json};

pub const CORPUS: &[&str] = &[
    "mapping-r8-symbolicated_file_names.txt",
    "mapping-inlines.txt",
    "mapping-callback.txt",
    "mapping-callback-extra-class.txt",
    "mapping-callback-inner-class.txt",
    "mapping.txt",
    "mapping-r8.txt",
];

pub fn corpus_dir() -> String {
    std::env::var("PGV_CORPUS").unwrap_or_else(|_| "/verif/corpus".to_string())
}

pub fn load_corpus(i: usize) -> Vec<u8> {
    let p = format!("{}/{}", corpus_dir(), CORPUS[i % CORPUS.len()]);
    match std::fs::read(&p) {
        Ok(b) => b,
        Err(e) => {
            eprintln!("HARNESS-ERROR: cannot read corpus file {p}: {e}");
            std::process::exit(2);
        }
    }
}

/// A window of a corpus file starting at a class line, about `lines` lines long.
pub fn corpus_window(data: &[u8], rng: &mut Rng, lines: usize) -> Vec<u8> {
    let starts: Vec<usize> = std::iter::once(0)
        .chain(data.iter().enumerate().filter(|(_, b)| **b == b'\n').map(|(i, _)| i + 1))
        .filter(|&i| i < data.len() && data[i] != b' ' && data[i] != b'#')
        .collect();
    if starts.is_empty() {
        return data.to_vec();
    }
    let s = *rng.pick(&starts);
    let mut end = s;
    let mut n = 0;
    while end < data.len() && n < lines {
        if data[end] == b'\n' {
            n += 1;
        }
        end += 1;
    }
    data[s..end].to_vec()
}

/// `n` small classes whose obfuscated names are a scrambled counter (file order differs from
/// every sort order), two thirds with one or two members.
pub fn many_classes_text(rng: &mut Rng, n: usize) -> Vec<u8> {
    let mul = 2_654_435_761u64 | 1;
    let salt = rng.next_u64();
    let mut t = String::with_capacity(n * 90);
    for i in 0..n {
        let k = ((i as u64).wrapping_mul(mul) ^ salt) & 0xff_ffff;
        t.push_str(&format!("com.example.gen.Klass{i} -> z.{k:06x}{}:\n", if i % 5 == 0 { "$a" } else { "" }));
        match i % 3 {
            0 => {}
            1 => t.push_str(&format!("    {}:{}:void run(int):{}:{} -> a\n", 1 + i % 7, 3 + i % 7, 10 + i % 90, 12 + i % 90)),
            _ => {
                t.push_str("    1:1:void com.example.gen.Util.check(java.lang.Object):20:20 -> b\n");
                t.push_str(&format!("    1:1:void handle(java.lang.Object):{} -> b\n", 30 + i % 50));
            }
        }
    }
    t.into_bytes()
}

pub fn gen_input(ctx: &Ctx, case_idx: u64, rng: &mut Rng) -> (String, Vec<u8>) {
    let whole_corpus = ctx.tier == Tier::Thorough && case_idx == 0 && !ctx.slow() && ctx.variant == "native";
    if whole_corpus {
        let i = (ctx.shard as usize) % CORPUS.len();
        let d = load_corpus(i);
        return if (ctx.shard as usize) < CORPUS.len() {
            (format!("corpus:{}", CORPUS[i]), d)
        } else {
            (format!("corpus-crlf:{}", CORPUS[i]), to_crlf(&d))
        };
    }
    if case_idx % 203 == 5 && !ctx.slow() {
        let n = 300 + rng.below(400);
        let ast = pgvcore::ast::huge_group_ast(rng, n);
        return ("ast-huge-group".to_string(), ast.print(Term::Lf, true, rng));
    }
    if case_idx % 997 == 11 && ctx.shard % 4 == 0 && !ctx.slow() {
        // more classes than a 16-bit index holds, in a file order that is not the sorted order
        let n = 65_600 + rng.below(3_000);
        return ("many-classes".to_string(), many_classes_text(rng, n));
    }
    match case_idx % 4 {
        0 | 1 => {
            let mut cfg = crate::props::c01::cfg_for(case_idx / 4);
            cfg.max_blocks = if ctx.slow() { 4 } else { cfg.max_blocks.min(14) };
            let ast = Gen::new(rng, cfg).ast();
            let t = *rng.pick(&Term::ALL);
            let ast = if rng.chance(1, 3) { ast.with_noise(rng, 15) } else { ast };
            debug_assert!(is_representable(&ast));
            ("ast".to_string(), ast.print(t, rng.chance(3, 4), rng))
        }
        2 => {
            let mut cfg = crate::props::c01::cfg_for(case_idx / 4);
            cfg.max_blocks = if ctx.slow() { 3 } else { 8 };
            let ast = Gen::new(rng, cfg).ast();
            let base = ast.print(Term::Lf, true, rng);
            let k = 1 + rng.below(6);
            ("token-mutated".to_string(), mutate_tokens(&base, rng, k, true))
        }
        _ => {
            let i = rng.below(CORPUS.len());
            let d = load_corpus(i);
            let w = corpus_window(&d, rng, if ctx.slow() { 25 } else { 200 });
            if rng.chance(1, 3) {
                let k = 1 + rng.below(4);
                ("corpus-window-mutated".to_string(), mutate_tokens(&w, rng, k, true))
            } else if rng.chance(1, 2) {
                ("corpus-window-crlf".to_string(), to_crlf(&w))
            } else {
                ("corpus-window".to_string(), w)
            }
        }
    }
}

pub fn run(ctx: &Ctx, rep: &mut Reporter) {
    if ctx.only_case.is_none() || ctx.only_case == Some(SWEEP_CASE) {
        size_sweep(ctx, rep, "differential");
    }
    for case_idx in ctx.case_range() {
        if case_idx == SWEEP_CASE {
            continue;
        }
        let mut rng = ctx_rng(ctx, case_idx);
        let (kind, text) = gen_input(ctx, case_idx, &mut rng);
        let (items, _) = cur::records(&text, usize::MAX);
        let u = from_records(&items, !ctx.slow() && text.len() < 100_000);
        drop(items);
        if !u.in_domain {
            rep.count("out_of_domain_rejected", 1);
            continue;
        }
        rep.count("files", 1);
        rep.count(&format!("files_{}", kind.split(':').next().unwrap_or("x")), 1);
        if u.n_classes_with_params_entries >= 2 {
            rep.count("files_with_ge2_classes_having_methods", 1);
        }
        let names = names_from_universe(&u);
        let (nt, ny, ns) = if ctx.slow() { (1, 1, 2) } else { (4, 4, 8) };
        let ex = make_extras(&names, &mut rng, nt, ny, ns);
        let r = guarded(|| check_file(&text, &kind, &u, &ex, rep, case_idx));
        if let Err(p) = r {
            panic_violation(rep, case_idx, "panic", &p, mapping_detail(&text, &kind));
        }
        if rep.wants_sample() {
            let mut s = Json::obj();
            s.set("kind", Json::s(kind.clone()));
            s.set("mapping_head", crate::report::text_json(&text[..text.len().min(600)]));
            s.set("classes", Json::i(u.classes.len() as u64));
            s.set("records", Json::i(u.n_records as u64));
            rep.sample(s);
        }
    }
}

pub fn check_file(text: &[u8], kind: &str, u: &Universe, ex: &Extras, rep: &mut Reporter, case_idx: u64) {
    let m = cur::mapper(text, false);
    let mp = cur::mapper(text, true);
    let bytes = match cur::write_cache(text) {
        Ok(b) => b,
        Err(e) => {
            let mut d = mapping_detail(text, kind);
            d.set("error", Json::s(e.to_string()));
            rep.violation(case_idx, "cache-write", "cache write to Vec failed", d);
            return;
        }
    };
    let buf = AlignedBuf::from_bytes(&bytes);
    let cache = match cur::parse_cache(buf.as_slice()) {
        Ok(c) => c,
        Err(e) => {
            let mut d = mapping_detail(text, kind);
            d.set("error", Json::s(format!("{e:?}")));
            rep.violation(case_idx, "cache-parse", "freshly written cache rejected", d);
            return;
        }
    };
    let base = ast_fp(text);
    let show = text.len() <= 20_000;
    let ctxf = || if show { mapping_detail(text, kind) } else { mapping_detail(&text[..2000], &format!("{kind} (first 2000 bytes)")) };
    // mapper with index is the reference for everything (it answers by-params too)
    diff_remap(
        &mp,
        &cache,
        u,
        ex,
        &DiffOpts { la: "mapper+params", lb: "cache", by_params: true, typed: true, signature_prefix: "" },
        rep,
        case_idx,
        base,
        &ctxf,
    );
    // the other public constructors build the same mapper
    if let Ok(t) = std::str::from_utf8(text) {
        let plain = cur::mapper_plain(text);
        let from_str = cur::mapper_from_str(t, None);
        let from_pair = cur::mapper_from_str(t, Some(true));
        let from_pair_no = cur::mapper_from_str(t, Some(false));
        rep.count("files_checked_through_all_constructors", 1);
        for (a, b, la, lb, byp) in [
            (&m, &plain, "new_with_param_mapping(false)", "new", false),
            (&m, &from_str, "new_with_param_mapping(false)", "from(&str)", false),
            (&mp, &from_pair, "new_with_param_mapping(true)", "from((&str, true))", true),
            (&m, &from_pair_no, "new_with_param_mapping(false)", "from((&str, false))", true),
        ] {
            diff_remap(a, b, u, ex, &DiffOpts { la, lb, by_params: byp, typed: false, signature_prefix: "constructors: " }, rep, case_idx, base ^ 2, &ctxf);
        }
    }
    // line-based answers of the mapper are the same with or without the index
    diff_remap(
        &m,
        &mp,
        u,
        ex,
        &DiffOpts { la: "mapper", lb: "mapper+params", by_params: false, typed: true, signature_prefix: "" },
        rep,
        case_idx,
        base ^ 1,
        &ctxf,
    );
}
