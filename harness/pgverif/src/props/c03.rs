//! C03 — parameter-based retrace returns the distinct real methods matching
//! name and args. Oracle: reference model M (`frames_by_params`).

use crate::api::*;
use crate::common::*;
use crate::cur;
use crate::props::c01::diff_signature;
use crate::report::{Ctx, Reporter, Tier};
use pgvcore::ast::{is_representable, Gen, GenCfg};
use pgvcore::model::Model;
use pgvcore::traces::{names_of, Names};
use pgvcore::util::{AlignedBuf, Json};

fn cfg_for(case: u64, slow: bool) -> GenCfg {
    let mut cfg = GenCfg::default();
    cfg.min_blocks = 2;
    cfg.max_blocks = if slow { 5 } else { 30 };
    cfg.max_items = 10;
    cfg.inline_pct = 35;
    cfg.srcfile_pct = 4;
    cfg.dup_class_pct = 6;
    match case % 4 {
        0 => {
            cfg.max_blocks = if slow { 4 } else { 12 };
            cfg.max_items = 16;
        }
        1 => cfg.inline_pct = 55,
        2 => {
            // few classes with many by-params entries in mixed (name, params) order
            cfg.min_blocks = 1;
            cfg.max_blocks = if slow { 2 } else { 3 };
            cfg.max_items = if slow { 10 } else { 64 };
            cfg.inline_pct = 10;
        }
        _ => {}
    }
    cfg
}

pub fn run(ctx: &Ctx, rep: &mut Reporter) {
    for case_idx in ctx.case_range() {
        let mut rng = ctx_rng(ctx, case_idx);
        let ast = Gen::new(&mut rng, cfg_for(case_idx, ctx.slow())).ast();
        if !is_representable(&ast) {
            rep.count("skipped_unrepresentable", 1);
            continue;
        }
        let model = Model::new(&ast);
        let names = names_of(&ast);
        if model.blocks.values().any(|b| Model::params_entries(b).len() > 20) {
            rep.count("asts_with_class_having_more_than_20_by_params_entries", 1);
        }
        let vars = variants(&ast, &mut rng, ctx.tier == Tier::Thorough && case_idx % 8 == 0, true);
        rep.count("asts", 1);
        for var in &vars {
            rep.count("variants", 1);
            let r = guarded(|| check_variant(&var.text, &var.name, &model, &names, rep, case_idx));
            if let Err(p) = r {
                panic_violation(rep, case_idx, "panic", &p, mapping_detail(&var.text, &var.name));
            }
        }
        if rep.wants_sample() {
            let mut s = Json::obj();
            s.set("mapping", crate::report::text_json(&vars[0].text));
            s.set("param_strings_in_universe", Json::Arr(names.args.iter().map(|a| Json::s(a.clone())).collect()));
            rep.sample(s);
        }
    }
}

fn check_variant(text: &[u8], vname: &str, model: &Model<'_>, names: &Names, rep: &mut Reporter, case_idx: u64) {
    let mp = cur::mapper(text, true);
    let bytes = match cur::write_cache(text) {
        Ok(b) => b,
        Err(e) => {
            let mut d = mapping_detail(text, vname);
            d.set("error", Json::s(e.to_string()));
            rep.violation(case_idx, "cache-write", "cache write to Vec failed", d);
            return;
        }
    };
    let buf = AlignedBuf::from_bytes(&bytes);
    let cache = match cur::parse_cache(buf.as_slice()) {
        Ok(c) => c,
        Err(e) => {
            let mut d = mapping_detail(text, vname);
            d.set("error", Json::s(format!("{e:?}")));
            rep.violation(case_idx, "cache-parse", "freshly written cache rejected", d);
            return;
        }
    };
    let base = ast_fp(text);
    let mut exp = vec![];
    let mut got = vec![];
    let reused = ReusedQuery::new();
    let mut qn = 0u64;
    for_each_params_query(names, |c, me, p| {
        let bits = model.frames_by_params(c, me, p, &mut exp);
        rep.cases(bits);
        if !exp.is_empty() {
            rep.distinct(q_fp(base, c, me, 0, false, Some(p)));
            rep.count("nonempty_expected", 1);
            if exp.len() >= 2 {
                rep.count("answers_with_ge2_frames", 1);
            }
        }
        for which in 0..2 {
            if which == 0 {
                mp.frames(c, me, 0, None, Some(p), &mut got)
            } else {
                cache.frames(c, me, 0, None, Some(p), &mut got)
            }
            rep.count("evaluations", 1);
            if !frames_equal_model(&got, &exp) {
                let who = ["mapper+params", "cache"][which];
                let mut d = mapping_detail(text, vname);
                d.set("implementation", Json::s(who));
                d.set("query", query_json(c, me, 0, None, Some(p)));
                d.set("expected", show_mframes(&exp));
                d.set("actual", show_frames(&got));
                let full = diff_signature(&got, &exp, bits);
                let kind = full.split(" cases=").next().unwrap_or("diff");
                let sig = format!("by-params answer differs from model impl={} {}", who, kind);
                rep.violation(case_idx, "model-by-params", &sig, d);
            }
        }
        // every third query once more with class, method and parameter string served from
        // one reused allocation
        qn += 1;
        if qn % 3 == 0 && ReusedQuery::fits(c) && ReusedQuery::fits(me) && ReusedQuery::fits(p) {
            for which in 0..2 {
                got.clear();
                let (rc, rm, rp) = (reused.put(0, c), reused.put(1, me), reused.put(2, p));
                if which == 0 {
                    mp.frames(rc, rm, 0, None, Some(rp), &mut got)
                } else {
                    cache.frames(rc, rm, 0, None, Some(rp), &mut got)
                }
                rep.count("evaluations", 1);
                rep.count("queries_from_reused_storage", 1);
                if !frames_equal_model(&got, &exp) {
                    let who = ["mapper+params", "cache"][which];
                    let mut d = mapping_detail(text, vname);
                    d.set("implementation", Json::s(who));
                    d.set("query", query_json(c, me, 0, None, Some(p)));
                    d.set("expected", show_mframes(&exp));
                    d.set("actual", show_frames(&got));
                    rep.violation(case_idx, "model-by-params", &format!("by-params answer differs from model when the query strings come from reused storage impl={who}"), d);
                }
                got.clear();
            }
        }
    });
}
