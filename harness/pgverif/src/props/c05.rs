//! C05 — well-formed mapping lines parse to exactly their parts; malformed
//! ones are errors carrying the offending line.
//! Oracles: the record AST itself (print -> parse -> compare) and the
//! independent reference line parser R (for lines without an AST).

use crate::api::*;
use crate::common::*;
use crate::cur;
use crate::props::c02::{load_corpus, CORPUS};
use crate::report::{text_json, Ctx, Reporter, Tier};
use pgvcore::ast::{Item, MethodEntry, NOISE_CATALOGUE};
use pgvcore::refparser::{classify, MalKind, RClass, RLineMapping, RRec};
use pgvcore::rng::Rng;
use pgvcore::util::{Fp, Json};

pub const EXH_CASE: u64 = u64::MAX - 1;
pub const CORPUS_CASE: u64 = u64::MAX - 2;
pub const CATALOGUE_CASE: u64 = u64::MAX - 3;

const FIRST: &[char] = &['a', 'b', 'Z', 'x', '$', '_', '<', '-', 'é', 'Ж', 'q'];
const REST: &[char] = &['a', 'b', 'Z', '0', '9', '$', '_', '<', '>', '-', 'é', 'Ж', '1'];

fn ident(rng: &mut Rng) -> String {
    let mut s = String::new();
    s.push(*rng.pick(FIRST));
    for _ in 0..rng.below(7) {
        if rng.chance(1, 8) {
            s.push(pgvcore::rng::unicode_letter(rng));
        } else {
            s.push(*rng.pick(REST));
        }
    }
    // an identifier never contains the arrow itself
    s.replace("->", "-_")
}
fn qualified(rng: &mut Rng, max_seg: usize) -> String {
    let n = 1 + rng.below(max_seg);
    (0..n).map(|_| ident(rng)).collect::<Vec<_>>().join(".")
}
fn ty(rng: &mut Rng) -> String {
    let mut t = qualified(rng, 3);
    for _ in 0..rng.below(3) {
        if rng.chance(1, 3) {
            t.push_str("[]");
        }
    }
    t
}
fn number(rng: &mut Rng) -> u128 {
    match rng.below(10) {
        0 => 0,
        1 => 1,
        2 => *rng.pick(&[u32::MAX as u128 - 1, u32::MAX as u128, u32::MAX as u128 + 1, 1u128 << 40, (1u128 << 40) - 1]),
        3 => rng.below(1 << 20) as u128,
        // values tools use as "whole method" / "no line" markers and narrow-integer limits
        4 => *rng.pick(&[65_535u128, 65_536, 65_534, 255, 256, 32_767, 32_768, 2_147_483_647, 2_147_483_648]),
        _ => rng.below(200) as u128,
    }
}

/// A record item with the optional parts selected by `combo` (0..24):
/// range x foreign class x (none | os | os:oe) x (args 0..3).
fn gen_method(rng: &mut Rng, combo: usize) -> MethodEntry {
    let with_range = combo % 2 == 1;
    let with_class = (combo / 2) % 2 == 1;
    let orig_lines = (combo / 4) % 3;
    let nargs = (combo / 12) % 4;
    let (start, end) = if with_range { (Some(number(rng)), Some(number(rng))) } else { (None, None) };
    let ostart = if orig_lines >= 1 { Some(number(rng)) } else { None };
    let oend = if orig_lines == 2 { Some(number(rng)) } else { None };
    let orig_class = if with_class { Some(qualified(rng, 3)) } else { None };
    // now and then the member is named after (the innermost part of) its qualifier, as a
    // constructor printed Java-source style is, or by a compiler's synthetic-name scheme
    let simple = orig_class.as_deref().map(|c| c.rsplit(['.', '$']).next().unwrap_or(c).to_string()).filter(|s| !s.is_empty());
    let orig = match (rng.below(12), &simple) {
        (0, Some(sn)) => sn.clone(),
        (1, Some(sn)) => format!("lambda${sn}$0"),
        (2, _) => format!("{}$default", ident(rng)),
        _ => ident(rng),
    };
    let ret = if rng.chance(1, 4) { "void".to_string() } else { ty(rng) };
    MethodEntry {
        start,
        end,
        ret,
        orig_class,
        orig,
        args: (0..nargs).map(|_| ty(rng)).collect::<Vec<_>>().join(","),
        ostart,
        oend,
        obf: ident(rng),
    }
}

fn gen_item(rng: &mut Rng, k: u64) -> Item {
    match k % 8 {
        0 => Item::Class { orig: qualified(rng, 4), obf: qualified(rng, 3) },
        1 => {
            // fields too may be printed with their holder class, and kept ones map onto themselves
            let name = ident(rng);
            let orig = if rng.chance(1, 3) { format!("{}.{}", qualified(rng, 3), name) } else { name.clone() };
            let obf = if rng.chance(1, 3) { name } else { ident(rng) };
            Item::Field { ty: ty(rng), orig, obf }
        }
        2 => {
            // keys and values ending in arbitrary non-ASCII letters (every trailing UTF-8 byte)
            let uni = |rng: &mut Rng| -> String {
                let mut w = String::from(*rng.pick(&["", "x", "voil", "d\u{e9}j", "a b "]));
                for _ in 0..1 + rng.below(3) {
                    w.push(pgvcore::rng::unicode_letter(rng));
                }
                w
            };
            let key = if rng.chance(1, 3) { uni(rng) } else { rng.pick(&["compiler", "min_api", "a b c", "{\"x\"", "", "sourceFile"]).to_string() };
            let value = match rng.below(6) {
                0 => None,
                1 => Some(String::new()),
                2 | 3 => Some(uni(rng)),
                _ => Some(rng.pick(&["R8", "1.2.3", "x: y", "a -> b:", "\"quoted\"", "Ünï"]).to_string()),
            };
            Item::HeaderKV { key, value }
        }
        3 => {
            let mut name = rng.pick(&["Main.kt", "", "a b.java", "R8$$SyntheticClass", "x:y", "Ünï.kt", "src/main/kotlin/com/example/Foo.kt", "C:\\src\\Foo.java", "dir/", "./x.kt", "a/b", "..", "Foo.kt.orig"]).to_string();
            if rng.chance(1, 4) {
                name.push(pgvcore::rng::unicode_letter(rng));
            }
            Item::SourceFileJson { name }
        }
        _ => {
            let c = rng.below(48);
            Item::Method(gen_method(rng, c))
        }
    }
}

fn u(v: Option<u128>) -> Option<usize> {
    v.map(|x| x as usize)
}

fn expected_rec(it: &Item) -> Option<NRec<'_>> {
    Some(match it {
        Item::Class { orig, obf } => NRec::Class { original: orig, obfuscated: obf },
        Item::Field { ty, orig, obf } => NRec::Field { ty, original: orig, obfuscated: obf },
        Item::HeaderKV { key, value } => NRec::Header { key, value: value.as_deref() },
        Item::SourceFileJson { name } => NRec::Header { key: "sourceFile", value: Some(name) },
        Item::Method(m) => NRec::Method {
            ty: &m.ret,
            original: &m.orig,
            obfuscated: &m.obf,
            arguments: &m.args,
            original_class: m.orig_class.as_deref(),
            line_mapping: m.usable().map(|(s, e)| (s as usize, e as usize, u(m.ostart), u(m.oend))),
        },
        _ => return None,
    })
}

fn rrec_to_nrec(r: &RRec) -> NRec<'_> {
    match r {
        RRec::Header { key, value } => NRec::Header { key, value: value.as_deref() },
        RRec::Class { original, obfuscated } => NRec::Class { original, obfuscated },
        RRec::Field { ty, original, obfuscated } => NRec::Field { ty, original, obfuscated },
        RRec::Method { ty, original, obfuscated, arguments, original_class, line_mapping } => NRec::Method {
            ty,
            original,
            obfuscated,
            arguments,
            original_class: original_class.as_deref(),
            line_mapping: line_mapping.as_ref().map(|l: &RLineMapping| {
                (l.start as usize, l.end as usize, l.ostart.map(|x| x as usize), l.oend.map(|x| x as usize))
            }),
        },
    }
}

/// Malformed derivations of a well-formed line, each tagged with its kind.
fn malformed_from(it: &Item, rng: &mut Rng) -> Vec<(&'static str, String)> {
    let line = it.print();
    let mut v = vec![];
    match it {
        Item::Class { .. } => {
            v.push(("missing_arrow", line.replacen(" -> ", " ", 1)));
            v.push(("unspaced_arrow", line.replacen(" -> ", "->", 1)));
            v.push(("unspaced_arrow", line.replacen(" -> ", " ->", 1)));
            v.push(("unspaced_arrow", line.replacen(" -> ", "-> ", 1)));
            v.push(("missing_class_colon", line[..line.len() - 1].to_string()));
        }
        Item::Field { .. } => {
            v.push(("missing_arrow", line.replacen(" -> ", " ", 1)));
            v.push(("unspaced_arrow", line.replacen(" -> ", "->", 1)));
        }
        Item::Method(m) => {
            v.push(("missing_arrow", line.replacen(" -> ", " ", 1)));
            v.push(("unspaced_arrow", line.replacen(" -> ", "->", 1)));
            v.push(("unspaced_arrow", line.replacen(" -> ", " ->", 1)));
            v.push(("unspaced_arrow", line.replacen(" -> ", "-> ", 1)));
            let content = &line[4..];
            for ind in ["", " ", "  ", "   ", "     ", "      ", "       ", "        ", "\t", "  \t"] {
                v.push(("bad_indentation", format!("{ind}{content}")));
            }
            if m.start.is_none() {
                v.push(("start_without_end", format!("    {}:{}", 1 + rng.below(99), content)));
            } else {
                // drop the end line: `s:type ...`
                let mut n = m.clone();
                n.start = None;
                n.end = None;
                v.push(("start_without_end", format!("    {}:{}", m.start.unwrap(), &n.print()[4..])));
            }
            // missing return type
            let mut n = m.clone();
            n.ret = String::new();
            let p = n.print();
            // `    [s:e:] name(...)` -> remove the blank left by the empty type
            let fixed = match (m.start, m.end) {
                (Some(a), Some(b)) => {
                    let pre = format!("    {}:{}:", a, b);
                    format!("{}{}", pre, &p[pre.len() + 1..])
                }
                _ => format!("    {}", &p[5..]),
            };
            v.push(("missing_return_type", fixed));
        }
        _ => {}
    }
    v
}

const TERMS: &[&str] = &["", "\n", "\r\n", "\n\n"];

fn check_wellformed_alone(it: &Item, rng: &mut Rng, rep: &mut Reporter, case_idx: u64) {
    let line = it.print();
    let exp = expected_rec(it).unwrap();
    // harness self-consistency: R must agree with the AST on lines R claims to know
    if let RClass::WellFormed(r) = classify(&line) {
        if rrec_to_nrec(&r) != exp {
            eprintln!("HARNESS-ERROR: reference parser disagrees with AST on {line:?}: {r:?}");
            std::process::exit(2);
        }
        rep.count("ast_lines_also_classified_wellformed_by_R", 1);
    }
    for t in TERMS {
        let text = format!("{line}{t}");
        let got = cur::try_parse_line(text.as_bytes());
        rep.count("evaluations", 1);
        rep.distinct(Fp::new().str(&text).get());
        if got.as_ref().ok() != Some(&exp) {
            let mut d = Json::obj();
            d.set("line", Json::s(text.clone()));
            d.set("expected", Json::s(format!("{exp:?}")));
            d.set("actual", Json::s(format!("{got:?}")));
            let kind = item_kind(it);
            let what = if got.is_err() { "rejected" } else { "parsed to different parts" };
            rep.violation(case_idx, "ast-roundtrip", &format!("well-formed {kind} line {what} by try_parse"), d);
        }
    }
    let _ = rng;
}

fn item_kind(it: &Item) -> &'static str {
    match it {
        Item::Class { .. } => "class",
        Item::Field { .. } => "field",
        Item::Method(_) => "method",
        Item::HeaderKV { .. } => "header",
        Item::SourceFileJson { .. } => "sourceFile-header",
        _ => "other",
    }
}

fn check_malformed_alone(kind: &str, line: &str, rep: &mut Reporter, case_idx: u64) {
    rep.count("evaluations", 1);
    rep.count(&format!("malformed_{kind}"), 1);
    rep.distinct(Fp::new().str(line).u64(1).get());
    let got = cur::try_parse_line(line.as_bytes());
    match got {
        Ok(r) => {
            let mut d = Json::obj();
            d.set("line", Json::s(line));
            d.set("malformed_kind", Json::s(kind));
            d.set("actual", Json::s(format!("{r:?}")));
            rep.violation(case_idx, "malformed-is-error", &format!("malformed line ({kind}) parsed as a record by try_parse"), d);
        }
        Err(l) => {
            if strip_terms(&l) != line.as_bytes() {
                let mut d = Json::obj();
                d.set("line", Json::s(line));
                d.set("error_line", text_json(&l));
                rep.violation(case_idx, "error-carries-line", &format!("error for malformed line ({kind}) does not carry the offending line (try_parse)"), d);
            }
        }
    }
    // through the iterator
    let text = format!("{line}\n");
    let (items, _) = cur::records(text.as_bytes(), 16);
    let ok = items.len() == 1 && matches!(&items[0], Err(l) if strip_terms(l) == line.as_bytes());
    rep.count("evaluations", 1);
    if !ok {
        let mut d = Json::obj();
        d.set("line", Json::s(line));
        d.set("malformed_kind", Json::s(kind));
        d.set("items", Json::s(format!("{items:?}")));
        rep.violation(case_idx, "malformed-is-error", &format!("malformed line ({kind}) is not exactly one error item carrying the line (iter)"), d);
    }
}

/// A file of several AST lines with one terminator style; the item sequence
/// must be the concatenation of the per-line expectations.
fn check_file(items: &[Item], rng: &mut Rng, rep: &mut Reporter, case_idx: u64) {
    let term = *rng.pick(&["\n", "\r\n", "\r", "\n\n", "\r\n\r\n"]);
    let trailing = rng.chance(3, 4);
    let mut text = String::new();
    for (i, it) in items.iter().enumerate() {
        text.push_str(&it.print());
        if i + 1 < items.len() || trailing {
            text.push_str(term);
        }
    }
    let exp: Vec<NItem<'_>> = items
        .iter()
        .filter_map(|it| match it {
            Item::Blank => None,
            Item::Noise(s) => Some(Err(s.as_bytes())),
            other => Some(Ok(expected_rec(other).unwrap())),
        })
        .collect();
    let (got, _) = cur::records(text.as_bytes(), items.len() * 2 + 8);
    rep.count("evaluations", 1);
    rep.count("files_checked", 1);
    let got_norm: Vec<NItem<'_>> = got.iter().map(|g| g.clone().map_err(strip_terms)).collect();
    // the same stream through the other Iterator entry points
    {
        let norm = |v: Vec<NItem<'_>>| -> Vec<String> { v.into_iter().map(|g| format!("{:?}", g.map_err(strip_terms))).collect() };
        let base: Vec<String> = got_norm.iter().map(|g| format!("{g:?}")).collect();
        let lim = base.len() + 4;
        let mut bad: Option<String> = None;
        for k in 0..base.len() + 1 {
            let n = cur::records_nth(text.as_bytes(), k).map(|g| format!("{:?}", g.map_err(strip_terms)));
            if n.as_ref() != base.get(k) {
                bad = Some(format!("nth({k}) = {n:?}, next() sequence has {:?}", base.get(k)));
                break;
            }
        }
        if bad.is_none() {
            for k in [1usize, 2, 3] {
                let sk = norm(cur::records_skip(text.as_bytes(), k, lim));
                if sk[..] != base[k.min(base.len())..] {
                    bad = Some(format!("skip({k}) differs from the tail of the next() sequence"));
                }
                let st = norm(cur::records_step_by(text.as_bytes(), k + 1, lim));
                let exp: Vec<String> = base.iter().step_by(k + 1).cloned().collect();
                if st != exp {
                    bad = Some(format!("step_by({}) differs from every {}th item of the next() sequence", k + 1, k + 1));
                }
            }
            let (cnt, last) = cur::records_count_last(text.as_bytes());
            if cnt != base.len() || last.map(|g| format!("{:?}", g.map_err(strip_terms))) != base.last().cloned() {
                bad = Some("count()/last() differ from the next() sequence".to_string());
            }
            let (a, b) = cur::records_clone_midway(text.as_bytes(), base.len() / 2, lim);
            if norm(a) != norm(b) {
                bad = Some("a clone of a partially consumed iterator continues differently".to_string());
            }
        }
        rep.count("evaluations", 1);
        rep.count("iterator_adaptor_checks", 1);
        if let Some(b) = bad {
            let mut d = Json::obj();
            d.set("file", Json::s(text.clone()));
            d.set("what", Json::s(b));
            rep.violation(case_idx, "file-embedding", "records obtained through nth/skip/step_by/count/last/clone differ from the next() sequence", d);
        }
    }
    if got_norm != exp {
        let mut d = Json::obj();
        d.set("file", Json::s(text.clone()));
        let idx = got_norm.iter().zip(&exp).position(|(a, b)| a != b).unwrap_or(got_norm.len().min(exp.len()));
        d.set("first_difference_at_item", Json::i(idx as u64));
        d.set("expected_item", Json::s(format!("{:?}", exp.get(idx))));
        d.set("actual_item", Json::s(format!("{:?}", got_norm.get(idx))));
        d.set("expected_len", Json::i(exp.len() as u64));
        d.set("actual_len", Json::i(got_norm.len() as u64));
        let what = if got_norm.len() > exp.len() && got_norm[..exp.len()] == exp[..] {
            if got_norm[exp.len()..].iter().all(|x| matches!(x, Err(l) if l.is_empty())) {
                "extra empty error item at end of input"
            } else {
                "extra items at end of input"
            }
        } else {
            "item differs"
        };
        rep.violation(case_idx, "file-embedding", &format!("records of a file differ from the per-line records: {what}"), d);
    }
}

const TOKENS: [&str; 12] = ["    ", "a", "b.c", "1", "0", ":", " ", "(", ")", " -> ", "#", "."];

fn check_r_line(line: &str, rep: &mut Reporter, case_idx: u64, src: &str) {
    let cls = classify(line);
    rep.count("evaluations", 1);
    match cls {
        RClass::WellFormed(r) => {
            rep.count(&format!("{src}_wellformed"), 1);
            rep.distinct(Fp::new().str(line).u64(2).get());
            let exp = rrec_to_nrec(&r);
            let got = cur::try_parse_line(line.as_bytes());
            if got.as_ref().ok() != Some(&exp) {
                let mut d = Json::obj();
                d.set("line", Json::s(line));
                d.set("expected", Json::s(format!("{exp:?}")));
                d.set("actual", Json::s(format!("{got:?}")));
                rep.violation(case_idx, "reference-parser", &format!("well-formed line ({src}) not parsed to its parts"), d);
            }
        }
        RClass::Malformed(k) => {
            rep.count(&format!("{src}_malformed"), 1);
            let kn = match k {
                MalKind::Arrow => "arrow",
                MalKind::ClassColon => "class_colon",
                MalKind::Indentation => "indentation",
                MalKind::StartWithoutEnd => "start_without_end",
                MalKind::MissingReturnType => "missing_return_type",
            };
            rep.count(&format!("{src}_malformed_{kn}"), 1);
            rep.distinct(Fp::new().str(line).u64(3).get());
            let got = cur::try_parse_line(line.as_bytes());
            let bad = match &got {
                Ok(_) => true,
                Err(l) => strip_terms(l) != line.as_bytes(),
            };
            if bad {
                let mut d = Json::obj();
                d.set("line", Json::s(line));
                d.set("malformed_kind", Json::s(kn));
                d.set("actual", Json::s(format!("{got:?}")));
                rep.violation(case_idx, "reference-parser", &format!("documented-malformed line ({kn}, {src}) not reported as an error carrying the line"), d);
            }
        }
        RClass::Neither => {
            rep.count(&format!("{src}_neither"), 1);
            // totality only
            let _ = cur::try_parse_line(line.as_bytes());
            let (items, more) = cur::records(line.as_bytes(), line.len() + 2);
            if more || items.len() > line.len().max(1) {
                let mut d = Json::obj();
                d.set("line", Json::s(line));
                rep.violation(case_idx, "totality", "more items than input bytes", d);
            }
        }
    }
}

fn exhaustive(ctx: &Ctx, rep: &mut Reporter, max_len: u32) {
    // enumerate all token strings of length <= max_len, partitioned by shard
    let mut total: u64 = 0;
    for len in 0..=max_len {
        let n = 12u64.pow(len);
        for i in 0..n {
            let idx = total + i;
            if idx % ctx.nshards != ctx.shard {
                continue;
            }
            let mut s = String::new();
            let mut x = i;
            for _ in 0..len {
                s.push_str(TOKENS[(x % 12) as usize]);
                x /= 12;
            }
            let r = guarded(|| check_r_line(&s, rep, EXH_CASE, "exhaustive"));
            if let Err(p) = r {
                let mut d = Json::obj();
                d.set("line", Json::s(s.clone()));
                panic_violation(rep, EXH_CASE, "panic", &p, d);
            }
        }
        total += n;
    }
    rep.count("exhaustive_space_size_all_shards", total / ctx.nshards + if ctx.shard < total % ctx.nshards { 1 } else { 0 });
}

fn corpus_lines(ctx: &Ctx, rep: &mut Reporter) {
    for (fi, name) in CORPUS.iter().enumerate() {
        let data = load_corpus(fi);
        let Ok(text) = std::str::from_utf8(&data) else { continue };
        for (li, line) in text.split('\n').enumerate() {
            if (li as u64 + fi as u64) % ctx.nshards != ctx.shard {
                continue;
            }
            let line = line.strip_suffix('\r').unwrap_or(line);
            if line.is_empty() {
                continue;
            }
            rep.count("corpus_lines", 1);
            let r = guarded(|| check_r_line(line, rep, CORPUS_CASE, "corpus"));
            if let Err(p) = r {
                let mut d = Json::obj();
                d.set("line", Json::s(line));
                d.set("file", Json::s(*name));
                panic_violation(rep, CORPUS_CASE, "panic", &p, d);
            }
        }
    }
}

pub fn run(ctx: &Ctx, rep: &mut Reporter) {
    let special = |c: u64| ctx.only_case.is_none() || ctx.only_case == Some(c);
    if special(CATALOGUE_CASE) {
        // the noise catalogue other monitors rely on: every entry must be an error
        for l in NOISE_CATALOGUE {
            check_malformed_alone("catalogue", l, rep, CATALOGUE_CASE);
        }
    }
    if special(EXH_CASE) && !ctx.slow() {
        exhaustive(ctx, rep, if ctx.tier == Tier::Thorough { 6 } else { 5 });
    }
    if special(CORPUS_CASE) && !ctx.slow() {
        corpus_lines(ctx, rep);
    }
    for case_idx in ctx.case_range() {
        if case_idx >= CATALOGUE_CASE {
            continue;
        }
        let mut rng = ctx_rng(ctx, case_idx);
        let r = guarded(|| {
            // every optional-part combination of a method, plus the other kinds
            let combo = (case_idx % 48) as usize;
            let m = Item::Method(gen_method(&mut rng, combo));
            rep.count(&format!("method_combo_range{}_class{}_orig{}", combo % 2, (combo / 2) % 2, (combo / 4) % 3), 1);
            let mut items = vec![m];
            if case_idx % 16 == 3 {
                // the catch-all prefixes R8 prints (0:65535, 1:65535, 0:0) with every shape of
                // the original-line suffix
                let c = rng.below(48);
                let mut m = gen_method(&mut rng, c | 1);
                let (s0, e0) = *rng.pick(&[(0u128, 65_535u128), (1, 65_535), (0, 0), (0, 65_536), (65_535, 0), (0, 1)]);
                m.start = Some(s0);
                m.end = Some(e0);
                let n = 1 + rng.below(40) as u128;
                match rng.below(5) {
                    0 => {
                        m.ostart = Some(n);
                        m.oend = None;
                    }
                    1 => {
                        m.ostart = Some(n);
                        m.oend = Some(n);
                    }
                    2 => {
                        m.ostart = Some(0);
                        m.oend = Some(0);
                    }
                    3 => {
                        m.ostart = Some(n);
                        m.oend = Some(n + 1);
                    }
                    _ => {
                        m.ostart = None;
                        m.oend = None;
                    }
                }
                items.push(Item::Method(m));
                rep.count("lines_with_a_catch_all_range_prefix", 1);
            }
            for k in 0..4 {
                items.push(gen_item(&mut rng, case_idx.wrapping_add(k)));
            }
            if rng.chance(1, 300) {
                // one part longer than 64 KiB (a 16-bit length, a bounded scan)
                let long = |rng: &mut Rng| -> String {
                    let unit = *rng.pick(&["a", "Z9", "é", "$_"]);
                    let n = *rng.pick(&[65_530usize, 65_536, 65_540, 70_000]);
                    let mut s = String::with_capacity(n + 4);
                    while s.len() < n {
                        s.push_str(unit);
                    }
                    s
                };
                let it = match rng.below(6) {
                    0 => Item::Class { orig: long(&mut rng), obf: qualified(&mut rng, 2) },
                    1 => Item::Class { orig: qualified(&mut rng, 2), obf: long(&mut rng) },
                    2 => Item::Field { ty: ty(&mut rng), orig: long(&mut rng), obf: ident(&mut rng) },
                    3 => Item::HeaderKV { key: "compiler".into(), value: Some(long(&mut rng)) },
                    4 => Item::SourceFileJson { name: long(&mut rng) },
                    _ => {
                        let c = rng.below(48);
                        let mut m = gen_method(&mut rng, c);
                        match rng.below(4) {
                            0 => m.orig = long(&mut rng),
                            1 => m.obf = long(&mut rng),
                            2 => m.args = long(&mut rng),
                            _ => m.ret = long(&mut rng),
                        }
                        Item::Method(m)
                    }
                };
                items.push(it);
                rep.count("lines_with_a_part_longer_than_64KiB", 1);
            }
            for it in &items {
                check_wellformed_alone(it, &mut rng, rep, case_idx);
                for (kind, bad) in malformed_from(it, &mut rng) {
                    check_malformed_alone(kind, &bad, rep, case_idx);
                }
            }
            // embedded in a file with noise and blank lines
            let mut file: Vec<Item> = vec![];
            for it in &items {
                if rng.chance(1, 3) {
                    file.push(Item::Noise(rng.pick(NOISE_CATALOGUE).to_string()));
                }
                if rng.chance(1, 4) {
                    file.push(Item::Blank);
                }
                file.push(it.clone());
            }
            if rng.chance(1, 3) {
                file.push(Item::Noise(rng.pick(NOISE_CATALOGUE).to_string()));
            }
            // lines that are related to the lines before them: a record is a function of its
            // own line, whatever the iterator has yielded before
            if rng.chance(1, 2) {
                let (q, o) = (qualified(&mut rng, 3), qualified(&mut rng, 2));
                file.push(Item::Class { orig: q.clone(), obf: o.clone() });
                let n = 1 + rng.below(4);
                for _ in 0..n {
                    let combo = rng.below(48) | 2; // with a class qualifier
                    let mut m = gen_method(&mut rng, combo);
                    match rng.below(5) {
                        0 | 1 => m.orig_class = Some(q.clone()), // qualified with its own class
                        2 => m.orig_class = Some(o.clone()),      // ... with the obfuscated name
                        3 => {
                            // the same method line as the one before
                            if let Some(Item::Method(prev)) = file.last() {
                                m = prev.clone();
                            }
                        }
                        _ => {
                            if let Some(Item::Method(prev)) = file.last() {
                                m.orig = prev.obf.clone();
                                m.obf = prev.orig.clone();
                            }
                        }
                    }
                    if rng.chance(1, 5) {
                        file.push(Item::SourceFileJson { name: "Main.kt".into() });
                    }
                    file.push(Item::Method(m));
                }
                rep.count("files_with_lines_related_to_earlier_lines", 1);
            }
            check_file(&file, &mut rng, rep, case_idx);
            if rep.wants_sample() {
                let mut s = Json::obj();
                s.set("lines", Json::Arr(items.iter().map(|i| Json::s(i.print())).collect()));
                s.set("malformed_examples", Json::Arr(malformed_from(&items[0], &mut rng).into_iter().take(6).map(|(k, l)| Json::s(format!("{k}: {l}"))).collect()));
                rep.sample(s);
            }
        });
        if let Err(p) = r {
            panic_violation(rep, case_idx, "panic", &p, Json::obj());
        }
    }
}
