//! C15 — cache writing is independent of sink chunking and propagates sink
//! errors. Fault enumeration over the sink's call sequence; the oracle reads
//! the sink's own event log.

use crate::common::*;
use crate::cur;
use crate::report::{Ctx, Reporter};
use pgvcore::ast::{is_representable, Gen, GenCfg, Term};
use pgvcore::decoder::*;
use pgvcore::sinks::*;
use pgvcore::util::{Fp, Json};

fn cfg_for(case: u64, slow: bool) -> GenCfg {
    let mut cfg = GenCfg::default();
    cfg.min_blocks = (case % 4) as usize; // 0..3 -> odd and even class counts
    cfg.max_blocks = cfg.min_blocks + if slow { 2 } else { 9 };
    cfg.max_items = 1 + (case % 7) as usize;
    cfg.long_names = false;
    cfg
}

fn site_of(pos: usize, l: &Layout) -> &'static str {
    let classes_end = l.classes_off + l.hdr.num_classes as usize * CLASS_LEN;
    let members_end = l.members_off + l.hdr.num_members as usize * MEMBER_LEN;
    let bp_end = l.by_params_off + l.hdr.num_by_params as usize * MEMBER_LEN;
    if pos < HEADER_LEN {
        "header"
    } else if pos < l.classes_off {
        "padding_before_classes"
    } else if pos < classes_end {
        "classes"
    } else if pos < l.members_off {
        "padding_before_members"
    } else if pos < members_end {
        "members"
    } else if pos < l.by_params_off {
        "padding_before_by_params"
    } else if pos < bp_end {
        "by_params"
    } else if pos < l.strings_off {
        "padding_before_strings"
    } else {
        "strings"
    }
}

pub fn run(ctx: &Ctx, rep: &mut Reporter) {
    for case_idx in ctx.case_range() {
        let mut rng = ctx_rng(ctx, case_idx);
        let ast = if case_idx % 50 == 3 && !ctx.slow() {
            // sections far larger than any internal block size (members > 64 KiB)
            rep.count("large_mappings", 1);
            let n = 2_000 + rng.below(2_000);
            pgvcore::ast::huge_group_ast(&mut rng, n)
        } else if case_idx % 25 == 7 && !ctx.slow() {
            // class tables larger than any plausible internal staging buffer (tens to hundreds
            // of 28-byte records), few members each
            rep.count("mappings_with_many_classes", 1);
            let mut cfg = GenCfg::default();
            cfg.name_family = true;
            cfg.min_blocks = 30 + rng.below(60);
            cfg.max_blocks = cfg.min_blocks + rng.below(150);
            cfg.max_items = 1;
            cfg.long_names = false;
            Gen::new(&mut rng, cfg).ast()
        } else {
            Gen::new(&mut rng, cfg_for(case_idx, ctx.slow())).ast()
        };
        if !is_representable(&ast) {
            continue;
        }
        let text = ast.print(Term::Lf, true, &mut rng);
        let r = guarded(|| check(&text, rep, case_idx));
        if let Err(p) = r {
            panic_violation(rep, case_idx, "panic", &p, mapping_detail(&text, ""));
        }
    }
}

thread_local! {
    /// the other mapping's serialisation as first seen on this thread (before any fault)
    static OTHER_CANONICAL: std::cell::RefCell<Option<Vec<u8>>> = const { std::cell::RefCell::new(None) };
}

fn check(text: &[u8], rep: &mut Reporter, case_idx: u64) {
    OTHER_CANONICAL.with(|c| {
        if c.borrow().is_none() {
            *c.borrow_mut() = cur::write_cache(OTHER_MAPPING).ok();
        }
    });
    let canonical = cur::write_cache(text).expect("write to Vec");
    let Ok(layout) = layout_walk(&canonical, 1) else { return };
    rep.count("mappings", 1);
    // counting pass
    let mut full = FaultSink::new(Schedule::Full);
    let r = cur::write_cache_to(text, &mut full);
    rep.count("evaluations", 1);
    if r.is_err() || full.accepted != canonical {
        let mut d = mapping_detail(text, "");
        d.set("result", Json::s(format!("{r:?}")));
        rep.violation(case_idx, "sink", "a sink that accepts everything did not receive the canonical bytes", d);
        return;
    }
    let ncalls = full.calls;
    let pads = [
        layout.classes_off - HEADER_LEN,
        layout.members_off - (layout.classes_off + layout.hdr.num_classes as usize * CLASS_LEN),
        layout.by_params_off - (layout.members_off + layout.hdr.num_members as usize * MEMBER_LEN),
        layout.strings_off - (layout.by_params_off + layout.hdr.num_by_params as usize * MEMBER_LEN),
    ];
    for (i, p) in pads.iter().enumerate() {
        if *p > 0 {
            rep.count(&format!("mappings_with_nonempty_padding_site_{i}"), 1);
        }
    }
    let mut schedules: Vec<Schedule> = (1..=16).map(Schedule::Chunk).collect();
    // record-, page- and pipe-sized sinks, and one-off short accepts of a page or more
    for k in [28usize, 36, 56, 72, 512, 4095, 4096, 4097, 8192, 65_536] {
        if k < canonical.len() {
            schedules.push(Schedule::Chunk(k));
        }
    }
    for i in 0..ncalls.min(200) {
        for t in [4096usize, 4100, 8192, 28, 36, 72] {
            if canonical.len() > t + 4096 || (t < 100 && canonical.len() > 200 && ncalls <= 40) {
                schedules.push(Schedule::ShortTake(i, t));
            }
        }
    }
    for i in 0..ncalls {
        schedules.push(Schedule::ShortOnce(i));
        schedules.push(Schedule::FailAt(i));
        schedules.push(Schedule::InterruptedAt(i));
        schedules.push(Schedule::ZeroAt(i));
    }
    // compound faults (a short accept directly followed by an interruption or another short
    // accept, two interruptions in a row, chunking with periodic interruptions): one fault
    // handled correctly does not mean that two in a row are
    if ncalls <= 80 {
        for i in 0..ncalls {
            for t in 1..=3 {
                schedules.push(Schedule::ShortThenInterrupted(i, t));
            }
            schedules.push(Schedule::ShortTake(i, 1));
            schedules.push(Schedule::ShortThenShort(i, 1));
            schedules.push(Schedule::InterruptedTwice(i));
        }
        rep.count("mappings_with_compound_fault_schedules", 1);
    }
    for k in 1..=4 {
        for period in [2usize, 3, 5] {
            schedules.push(Schedule::ChunkWithInterrupts(k, period));
        }
    }
    // every schedule once with a plain sink and once with a sink whose write_vectored gathers
    let schedules: Vec<(Schedule, bool)> = schedules.iter().map(|s| (*s, false)).chain(schedules.iter().map(|s| (*s, true))).collect();
    // the kind of a hard failure rotates with the call index; the first three calls fail with
    // every kind
    let mut schedules: Vec<(Schedule, bool, usize)> = schedules
        .into_iter()
        .map(|(s, v)| (s, v, if let Schedule::FailAt(i) = s { i % FAIL_KINDS.len() } else { 0 }))
        .collect();
    for i in 0..ncalls.min(3) {
        for k in 0..FAIL_KINDS.len() {
            schedules.push((Schedule::FailAt(i), false, k));
        }
    }
    let mut followups = 0u64;
    for (sch, vectored, kind_idx) in schedules {
        let mut sink = if vectored { FaultSink::new_vectored(sch) } else { FaultSink::new(sch) };
        sink.fail_kind = FAIL_KINDS[kind_idx];
        if matches!(sch, Schedule::FailAt(_)) {
            rep.count(&format!("hard_failures_of_kind_{:?}", FAIL_KINDS[kind_idx]), 1);
        }
        sink.limit = canonical.len() * 3 + 4096;
        let res = cur::write_cache_to(text, &mut sink);
        rep.count("evaluations", 1);
        rep.count("schedules", 1);
        if vectored {
            rep.count("schedules_with_gathering_vectored_sink", 1);
            if sink.vectored_calls > 0 {
                rep.count("vectored_write_calls_observed", sink.vectored_calls as u64);
            }
        }
        if sink.fault_hit {
            rep.count("schedules_where_a_fault_hit", 1);
            rep.distinct(Fp::new().bytes(&canonical).str(&format!("{sch:?}{vectored}")).get());
            // where did the first faulty call land
            let ev = sink.events.iter().find(|e| match e.outcome {
                Outcome::Accepted(n) => n < e.offered,
                _ => true,
            });
            if let Some(e) = ev {
                rep.count(&format!("fault_site_{}", site_of(e.pos, &layout)), 1);
            }
        }
        let kind = match sch {
            Schedule::Chunk(_) => "chunked sink",
            Schedule::ShortOnce(_) => "sink short once",
            Schedule::FailAt(_) => "failing sink",
            Schedule::InterruptedAt(_) => "interrupted sink",
            Schedule::ZeroAt(_) => "sink returning Ok(0)",
            Schedule::ShortTake(..) => "sink short once",
            Schedule::ShortThenInterrupted(..) => "sink short, then interrupted",
            Schedule::ShortThenShort(..) => "sink short twice in a row",
            Schedule::InterruptedTwice(_) => "sink interrupted twice in a row",
            Schedule::ChunkWithInterrupts(..) => "chunked sink with periodic interruptions",
            Schedule::Full => "full",
        };
        let mk = |sink: &FaultSink| {
            let mut d = mapping_detail(text, "");
            d.set("schedule", Json::s(format!("{sch:?}{}", if vectored { " (sink gathers write_vectored buffers)" } else { "" })));
            d.set("error_kind_of_a_hard_failure", Json::s(format!("{:?}", FAIL_KINDS[kind_idx])));
            d.set("write_calls", Json::i(sink.calls as u64));
            d.set("canonical_len", Json::i(canonical.len() as u64));
            d.set("accepted_len", Json::i(sink.accepted.len() as u64));
            d.set(
                "events_tail",
                Json::Arr(sink.events.iter().rev().take(6).rev().map(|e| Json::s(format!("call {} @{} offered {} -> {:?} [{}]", e.index, e.pos, e.offered, e.outcome, site_of(e.pos, &layout)))).collect()),
            );
            d
        };
        let is_prefix = sink.accepted.len() <= canonical.len() && canonical[..sink.accepted.len()] == sink.accepted[..];
        match &res {
            Ok(()) => {
                if sink.accepted != canonical {
                    // the culprit is the first short accept whose remainder was not offered again
                    let short_site = sink
                        .events
                        .iter()
                        .enumerate()
                        .find(|(j, e)| match e.outcome {
                            Outcome::Accepted(n) if n < e.offered => sink.events.get(j + 1).map_or(true, |nx| nx.offered != e.offered - n || nx.pos != e.pos + n),
                            _ => false,
                        })
                        .map(|(_, e)| site_of(e.pos, &layout))
                        .unwrap_or("?");
                    let what = "bytes that are not";
                    let pad = if short_site.starts_with("padding") { "a padding site" } else { "a data site" };
                    rep.violation(case_idx, "sink", &format!("write returned Ok but the sink accepted {what} the canonical serialisation ({kind}, short write not retried at {pad})"), mk(&sink));
                }
                if sink.nonretryable_failures() > 0 {
                    rep.violation(case_idx, "sink", &format!("write returned Ok although the sink reported a non-retryable failure ({kind})"), mk(&sink));
                }
            }
            Err(_) => {
                rep.count("writes_that_reported_failure", 1);
                if !is_prefix {
                    rep.violation(case_idx, "sink", &format!("after a reported failure the accepted bytes are not a prefix of the canonical serialisation ({kind})"), mk(&sink));
                }
                if matches!(sch, Schedule::Chunk(_) | Schedule::ShortOnce(_) | Schedule::ShortTake(..) | Schedule::ShortThenShort(..)) {
                    // failing on a sink that merely accepts fewer bytes per call is not forbidden
                    // by the statement (its first clause is conditional on success); counted only
                    rep.count("writes_failed_on_a_merely_short_sink", 1);
                }
            }
        }
        // The sink of one call must not influence the next call: after a failed (and after
        // every fourth successful) write, the same thread writes the same mapping into a
        // Vec, which has to receive the canonical bytes.
        followups += 1;
        if res.is_err() || followups % 4 == 0 {
            let again = cur::write_cache(text);
            rep.count("evaluations", 1);
            rep.count(if res.is_err() { "writes_following_a_failed_write_on_the_same_thread" } else { "writes_following_a_faulty_but_successful_write" }, 1);
            if res.is_err() && followups % 3 == 0 {
                // ... and a different mapping right after the failure
                let other = cur::write_cache(OTHER_MAPPING);
                let clean = OTHER_CANONICAL.with(|c| c.borrow_mut().get_or_insert_with(|| other.as_ref().ok().cloned().unwrap_or_default()).clone());
                rep.count("evaluations", 1);
                if other.as_deref().ok() != Some(&clean[..]) {
                    rep.violation(case_idx, "sink", &format!("the write of ANOTHER mapping that follows a failed write on the same thread is not that mapping's usual serialisation ({kind})"), mk(&sink));
                }
            }
            if again.as_deref().ok() != Some(&canonical[..]) {
                let mut d = mk(&sink);
                d.set("second_write_len", Json::s(format!("{:?}", again.as_ref().map(|v| v.len()))));
                let after = if res.is_err() { "a failed write" } else { "a write into a faulty sink" };
                rep.violation(case_idx, "sink", &format!("the write that follows {after} on the same thread does not produce the canonical serialisation ({kind})"), d);
            }
        }
    }
    if rep.wants_sample() {
        let mut s = Json::obj();
        s.set("canonical_len", Json::i(canonical.len() as u64));
        s.set("write_calls_with_full_sink", Json::i(ncalls as u64));
        s.set("padding_lengths", Json::s(format!("{pads:?}")));
        s.set("schedules", Json::s(format!("Chunk(1..=16) + (ShortOnce, FailAt, InterruptedAt, ZeroAt) x every call index 0..{ncalls}")));
        rep.sample(s);
    }
}
