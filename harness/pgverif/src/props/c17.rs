//! C17 — printing a stack trace and parsing it back is lossless.
//! Oracle: the trace AST (print -> parse -> compare -> print).

use crate::common::*;
use crate::cur;
use crate::report::{Ctx, Reporter};
use pgvcore::rng::Rng;
use pgvcore::traces::*;
use pgvcore::util::{Fp, Json};

const CLS_FIRST: &[&str] = &["a", "b", "Z", "com", "java", "$", "_", "é", "Ж", "x1"];
const CLS_REST: &[&str] = &[
    "a", "b", "Z", "0", "9", "$", "_", "é", "Ж", "Exception", "Error", "lang", "-", "<", ">",
    // non-ASCII characters that are neither letters nor digits (combining marks, symbols, connectors, emoji)
    "e\u{301}", "\u{20ac}", "\u{203f}", "\u{915}\u{94d}", "\u{1F600}", "\u{b7}", "\u{2122}", "#", "@", "!", "(", ")", ":", ",", "\"",
];

fn ident(rng: &mut Rng) -> String {
    let mut s = rng.pick(CLS_FIRST).to_string();
    for _ in 0..rng.below(4) {
        s.push_str(*rng.pick(CLS_REST));
    }
    s
}
fn class(rng: &mut Rng) -> String {
    let n = 1 + rng.below(4);
    (0..n).map(|_| ident(rng)).collect::<Vec<_>>().join(".")
}
fn method(rng: &mut Rng) -> String {
    match rng.below(6) {
        0 => "<init>".into(),
        1 => "<clinit>".into(),
        2 => "lambda$run$0".into(),
        _ => ident(rng).replace(['(', ')'], "_"),
    }
}
fn file(rng: &mut Rng) -> String {
    rng.pick(&["SourceFile", "Main.java", "a b.kt", "<unknown>", "Ünï.kt", "Unknown Source", "x(y).kt", "F", ""]).to_string()
}
fn message(rng: &mut Rng) -> Option<String> {
    match rng.below(8) {
        0 | 1 => None,
        2 => Some("boom: with colon".into()),
        3 => Some("Caused by: nested text".into()),
        4 => Some("at x.y(F:1)".into()),
        5 => Some(format!("{}: {}", ident(rng), ident(rng))),
        6 => Some("trailing paren)".into()),
        _ => Some(ident(rng)),
    }
}
fn line(rng: &mut Rng) -> u64 {
    match rng.below(6) {
        0 => 0,
        1 => u64::MAX,
        2 => u32::MAX as u64 + rng.below(3) as u64,
        3 => rng.next_u64(),
        _ => rng.below(5000) as u64,
    }
}
fn throwable(rng: &mut Rng) -> TThrowable {
    TThrowable { class: class(rng), message: message(rng) }
}
fn frame(rng: &mut Rng) -> TFrame {
    // a frame's class precedes the parenthesised file: parentheses cannot be part of it
    let class = class(rng).replace(['(', ')'], "_");
    TFrame { class, method: method(rng), file: Some(file(rng)), line: line(rng), params: None }
}
thread_local! {
    static WRAPPERS: std::cell::Cell<u64> = const { std::cell::Cell::new(0) };
}

fn trace(rng: &mut Rng, depth: usize, top: bool) -> TTrace {
    let nf = match rng.below(4) {
        0 => 0,
        1 => 1,
        // now and then a section as deep as a StackOverflowError trace (beyond 255, 1024
        // and 65 535 frames)
        _ if rng.chance(1, 400) => *rng.pick(&[256usize, 1024, 1025, 2000, 5000, 66_000]),
        _ => rng.below(21),
    };
    let mut frames: Vec<TFrame> = (0..nf).map(|_| frame(rng)).collect();
    // frames that relate to the frame above them: a synthetic lambda / inner class of the same
    // class, the same class again, line 0
    for i in 1..frames.len().min(64) {
        if rng.chance(1, 6) {
            let above = frames[i - 1].class.clone();
            frames[i].class = match rng.below(4) {
                0 => format!("{above}$$ExternalSyntheticLambda{}", rng.below(3)),
                1 => format!("{above}$1"),
                2 => above,
                _ => format!("{above}$Companion"),
            };
            if rng.chance(1, 2) {
                frames[i].line = 0;
            }
        }
    }
    let mut exception = if !top || rng.chance(5, 6) { Some(throwable(rng)) } else { None };
    if exception.is_none() && frames.is_empty() {
        if rng.chance(1, 2) {
            frames.push(frame(rng));
        } else {
            exception = Some(throwable(rng));
        }
    }
    let cause = if depth > 0 {
        let mut c = trace(rng, depth - 1, false);
        // as in real Java traces, a cause often ends in the same frames as the trace enclosing it
        if !frames.is_empty() && rng.chance(1, 3) {
            let k = 1 + rng.below(frames.len().min(4));
            c.frames.extend(frames[frames.len() - k..].iter().cloned());
        }
        // `new RuntimeException(cause)`: the wrapper's message is the cause's toString()
        if rng.chance(1, 5) {
            if let (Some(e), Some(ce)) = (exception.as_mut(), c.exception.as_ref()) {
                e.message = Some(ce.print());
                WRAPPERS.with(|w| w.set(w.get() + 1));
            }
        }
        Some(Box::new(c))
    } else {
        None
    };
    TTrace { exception, frames, cause }
}

pub fn run(ctx: &Ctx, rep: &mut Reporter) {
    for case_idx in ctx.case_range() {
        let mut rng = ctx_rng(ctx, case_idx);
        let r = guarded(|| {
            let depth = rng.below(5);
            let t = trace(&mut rng, depth, true);
            let printed = cur::typed_print(&t);
            // informational only: the round trip, not the exact layout, is what C17 states
            if printed != t.print() {
                rep.count("display_differs_from_harness_printer", 1);
            }
            let parsed = cur::typed_parse(printed.as_bytes());
            rep.count("evaluations", 1);
            rep.count("traces", 1);
            rep.count("wrapper_messages_equal_to_the_cause_line", WRAPPERS.with(|w| w.replace(0)));
            {
                let mut sec = Some(&t);
                while let Some(x) = sec {
                    if x.frames.len() > 1024 {
                        rep.count("traces_with_a_section_of_more_than_1024_frames", 1);
                        break;
                    }
                    sec = x.cause.as_deref();
                }
            }
            rep.count("frames_roundtripped", count_frames(&t));
            if shares_tail(&t) {
                rep.count("traces_where_a_cause_shares_ge2_trailing_frames_with_its_parent", 1);
            }
            if t.depth() >= 1 && has_delim_message(&t) {
                rep.count("traces_depth_ge1_with_delimiter_message", 1);
                rep.distinct(Fp::new().str(&printed).get());
            }
            if parsed.as_ref() != Some(&t) {
                let mut d = Json::obj();
                d.set("printed", Json::s(printed.clone()));
                d.set("parsed", Json::s(format!("{parsed:?}")));
                d.set("original", Json::s(format!("{t:?}")));
                let what = match &parsed {
                    None => "parse returned None",
                    Some(p) if p.depth() != t.depth() => "cause-chain depth differs",
                    Some(p) if p.exception != t.exception => "top-level throwable differs",
                    _ => "frames or causes differ",
                };
                rep.violation(case_idx, "roundtrip", &format!("parse(print(trace)) != trace: {what}"), d);
            } else if let Some(p) = parsed {
                let again = cur::typed_print(&p);
                if again != printed {
                    let mut d = Json::obj();
                    d.set("first_print", Json::s(printed.clone()));
                    d.set("second_print", Json::s(again));
                    rep.violation(case_idx, "roundtrip", "print(parse(print(trace))) != print(trace)", d);
                }
            }
            // single frames and throwables
            for _ in 0..4 {
                let f = frame(&mut rng);
                let s = cur::frame_print(&f);
                let back = cur::frame_parse(s.as_bytes());
                rep.count("evaluations", 1);
                if back.as_ref() != Some(&f) || back.as_ref().map(cur::frame_print).as_deref() != Some(s.as_str()) {
                    let mut d = Json::obj();
                    d.set("printed", Json::s(s));
                    d.set("parsed", Json::s(format!("{back:?}")));
                    rep.violation(case_idx, "roundtrip", "StackFrame print/parse round trip failed", d);
                }
                let th = throwable(&mut rng);
                let s = cur::throwable_print(&th);
                let back = cur::throwable_parse(s.as_bytes());
                rep.count("evaluations", 1);
                if back.as_ref() != Some(&th) || back.as_ref().map(cur::throwable_print).as_deref() != Some(s.as_str()) {
                    let mut d = Json::obj();
                    d.set("printed", Json::s(s));
                    d.set("parsed", Json::s(format!("{back:?}")));
                    rep.violation(case_idx, "roundtrip", "Throwable print/parse round trip failed", d);
                }
            }
            if rep.wants_sample() && t.depth() >= 1 {
                let mut s = Json::obj();
                s.set("printed_trace", Json::s(printed));
                rep.sample(s);
            }
        });
        if let Err(p) = r {
            panic_violation(rep, case_idx, "panic", &p, Json::obj());
        }
    }
}

fn count_frames(t: &TTrace) -> u64 {
    t.frames.len() as u64 + t.cause.as_ref().map_or(0, |c| count_frames(c))
}
fn has_delim_message(t: &TTrace) -> bool {
    let m = t.exception.as_ref().and_then(|e| e.message.as_deref()).map_or(false, |m| m.contains(": ") || m.contains("at "));
    m || t.cause.as_ref().map_or(false, |c| has_delim_message(c))
}

fn shares_tail(t: &TTrace) -> bool {
    match &t.cause {
        Some(c) => {
            let n = t.frames.iter().rev().zip(c.frames.iter().rev()).take_while(|(a, b)| a == b).count();
            n >= 2 || shares_tail(c)
        }
        None => false,
    }
}
