//! C12 — no buffer accepted as a cache can make a query panic, overflow or
//! read outside. Oracles: panic/overflow trap, pointer-provenance monitor on
//! every returned string, and (in the asan/miri/valgrind stages) the
//! sanitizers. No expected values are needed: any answer is acceptable, only
//! how it is produced is constrained.

use crate::api::*;
use crate::common::*;
use crate::cur;
use crate::report::{Ctx, Reporter};
use pgvcore::ast::{is_representable, Gen, GenCfg, Term};
use pgvcore::decoder::*;
use pgvcore::rng::Rng;
use pgvcore::traces::{names_of, Names, TTrace, TraceGen};
use pgvcore::util::{AlignedBuf, Fp, Json};

fn cfg_for(case: u64, slow: bool) -> GenCfg {
    let mut cfg = GenCfg::default();
    cfg.max_blocks = if slow { 3 } else { 6 };
    cfg.max_items = if slow { 4 } else { 8 };
    cfg.long_names = case % 3 == 0 && !slow;
    cfg.srcfile_pct = 15;
    cfg
}

fn in_range(s: &str, r: (usize, usize)) -> bool {
    let p = s.as_ptr() as usize;
    p >= r.0 && p + s.len() <= r.1
}

struct Prov<'q> {
    buf: (usize, usize),
    parts: Vec<&'q str>,
}
impl<'q> Prov<'q> {
    fn ok(&self, s: &str) -> bool {
        s.is_empty() || in_range(s, self.buf) || self.parts.iter().any(|q| in_range(s, (q.as_ptr() as usize, q.as_ptr() as usize + q.len())))
    }
}

pub const HUGE_CASE: u64 = u64::MAX - 20;

/// A valid cache with one method of tens of thousands of entries, queried on a thread
/// with a 2 MiB stack (the default of a spawned Rust thread).
fn huge_case(ctx: &Ctx, rep: &mut Reporter) {
    ctx.note_case(HUGE_CASE);
    let mut rng = Rng::new(ctx.case_seed(HUGE_CASE));
    let n = if ctx.variant == "debug" { 20_000 } else { 60_000 } + rng.below(5_000);
    let ast = pgvcore::ast::huge_group_ast(&mut rng, n);
    let text = ast.print_lf();
    let mut names = names_of(&ast);
    names.classes.truncate(3);
    let bytes = cur::write_cache(&text).expect("write to Vec");
    let valid = AlignedBuf::from_bytes(&bytes);
    rep.count("huge_group_inputs", 1);
    let r = std::thread::scope(|s| {
        std::thread::Builder::new()
            .stack_size(2 * 1024 * 1024)
            .spawn_scoped(s, || guarded(|| probe(&valid, &valid, &names, &[], rep, HUGE_CASE, "none (valid huge cache)")))
            .expect("spawn")
            .join()
    });
    match r {
        Ok(Ok(())) => {}
        Ok(Err(p)) => {
            let mut d = Json::obj();
            d.set("mapping", Json::s(format!("huge_group_ast(n={n})")));
            panic_violation(rep, HUGE_CASE, "panic", &p, d);
        }
        Err(_) => {
            eprintln!("HARNESS-ERROR: huge-case thread died");
            std::process::exit(2);
        }
    }
}

pub fn run(ctx: &Ctx, rep: &mut Reporter) {
    if !ctx.slow() && (ctx.variant == "native" || ctx.variant == "debug") && ctx.shard < 4 && (ctx.only_case.is_none() || ctx.only_case == Some(HUGE_CASE)) {
        huge_case(ctx, rep);
    }
    if (ctx.variant == "native" || ctx.variant == "debug") && (ctx.only_case.is_none() || ctx.only_case == Some(SWEEP_CASE)) {
        // valid files too must be answered without panic, whatever the size of a method group
        size_sweep(ctx, rep, "valid-file");
    }
    for case_idx in ctx.case_range() {
        if case_idx == HUGE_CASE || case_idx == SWEEP_CASE {
            continue;
        }
        let mut rng = ctx_rng(ctx, case_idx);
        let ast = Gen::new(&mut rng, cfg_for(case_idx, ctx.slow())).ast();
        if !is_representable(&ast) {
            continue;
        }
        let text = ast.print(Term::Lf, true, &mut rng);
        let names = names_of(&ast);
        let bytes = match guarded(|| cur::write_cache(&text).expect("write to Vec")) {
            Ok(b) => b,
            Err(p) => {
                panic_violation(rep, case_idx, "panic", &p, mapping_detail(&text, ""));
                continue;
            }
        };
        let Ok(layout) = layout_walk(&bytes, 1) else { continue };
        let valid = AlignedBuf::from_bytes(&bytes);
        let g = TraceGen { names: &names };
        let traces: Vec<TTrace> = (0..2).map(|_| g.trace_top(&mut rng, true)).collect();
        let ncorr = if ctx.slow() { 3 } else { 24 };
        rep.count("valid_files", 1);
        for k in 0..ncorr {
            let mut buf = valid.clone();
            let desc = if k == 0 {
                // systematic: one field x one boundary value, cycling through the field map
                let fields = field_map(&layout);
                let f = &fields[(case_idx as usize) % fields.len()];
                let vals = boundary_values(&layout, f.section);
                let v = vals[(case_idx as usize / fields.len()) % vals.len()];
                wr32(buf.as_mut_slice(), f.off, v);
                rep.count(&format!("field_hits_section{}_idx{}", f.section, f.idx), 1);
                format!("field sec{} idx{} @{} := {}", f.section, f.idx, f.off, v)
            } else if k == 1 && !field_pairs(&layout).is_empty() {
                // systematic: one pair of related fields x every pair of values, cycling
                let pairs = field_pairs(&layout);
                let vals = pair_values(&layout);
                let (a, b, sec) = pairs[(case_idx as usize) % pairs.len()];
                let j = (case_idx as usize / pairs.len()) % (vals.len() * vals.len());
                let (va, vb) = (vals[j / vals.len()], vals[j % vals.len()]);
                wr32(buf.as_mut_slice(), a, va);
                wr32(buf.as_mut_slice(), b, vb);
                rep.count("systematic_field_pair_corruptions", 1);
                format!("pair sec{sec} @{a}:={va} @{b}:={vb}")
            } else {
                let c = corrupt(buf.as_mut_slice(), &layout, &mut rng);
                if let Some(rest) = c.desc.strip_prefix("field sec") {
                    let sec = &rest[..1];
                    let idx = rest[5..].split(' ').next().unwrap_or("?");
                    rep.count(&format!("field_hits_section{sec}_idx{idx}"), 1);
                }
                c.desc
            };
            let r = guarded(|| probe(&valid, &buf, &names, &traces, rep, case_idx, &desc));
            if let Err(p) = r {
                let mut d = Json::obj();
                d.set("corruption", Json::s(desc.clone()));
                d.set("mapping", crate::report::text_json(&text));
                d.set("valid_cache_hex", Json::s(pgvcore::util::hex(&bytes[..bytes.len().min(2000)])));
                panic_violation(rep, case_idx, "panic", &p, d);
            }
        }
    }
    // random buffers behind a valid header / arbitrary bytes: parse must not panic
    let mut rng = Rng::new(ctx.case_seed(u64::MAX - 7));
    let n = if ctx.slow() { 20 } else { 2000 };
    for _ in 0..n {
        let len = rng.below(200);
        let mut b: Vec<u8> = (0..len).map(|_| rng.next_u64() as u8).collect();
        if len >= 24 && rng.chance(3, 4) {
            b[0..4].copy_from_slice(b"PRGC");
            wr32(&mut b, 4, 1);
            for off in [8, 12, 16, 20] {
                if rng.chance(2, 3) {
                    wr32(&mut b, off, rng.below(4) as u32);
                }
            }
        }
        let ab = AlignedBuf::from_bytes(&b);
        rep.count("evaluations", 1);
        rep.count("random_buffers", 1);
        let r = guarded(|| {
            if let Ok(c) = cur::parse_cache(ab.as_slice()) {
                let mut out = vec![];
                c.frames("a", "a", 1, None, None, &mut out);
                c.frames("a", "a", usize::MAX, None, Some(""), &mut out);
                let _ = c.class("a");
                let _ = c.method("a", "a");
                true
            } else {
                false
            }
        });
        match r {
            Ok(true) => rep.count("random_buffers_parsed", 1),
            Ok(false) => {}
            Err(p) => {
                let mut d = Json::obj();
                d.set("buffer_hex", Json::s(pgvcore::util::hex(&b)));
                panic_violation(rep, u64::MAX - 7, "panic", &p, d);
            }
        }
    }
}

const LINES: [usize; 8] = [0, 1, 2, 7, 40, u32::MAX as usize, u32::MAX as usize + 1, usize::MAX];

#[allow(clippy::too_many_arguments)]
fn probe(valid: &AlignedBuf, buf: &AlignedBuf, names: &Names, traces: &[TTrace], rep: &mut Reporter, case_idx: u64, desc: &str) {
    rep.count("evaluations", 1);
    rep.count("corrupted_buffers", 1);
    let Ok(c) = cur::parse_cache(buf.as_slice()) else {
        rep.count("corrupted_buffers_rejected", 1);
        return;
    };
    rep.count("corrupted_buffers_parsed", 1);
    let v = cur::parse_cache(valid.as_slice()).expect("valid file parses");
    let brange = buf.addr_range();
    let mut felt = false;
    let mut got = vec![];
    let mut ref_ = vec![];
    let bad_prov = |rep: &mut Reporter, api: &str, s: &str| {
        let mut d = Json::obj();
        d.set("corruption", Json::s(desc));
        d.set("api", Json::s(api));
        d.set("returned", Json::s(s));
        rep.violation(case_idx, "provenance", &format!("{api} returned a string that is neither a slice of the buffer nor of the query"), d);
    };
    for cl in names.classes.iter().take(14) {
        let prov = Prov { buf: brange, parts: vec![cl.as_str()] };
        let x = c.class(cl);
        rep.count("evaluations", 1);
        if let Some(s) = x {
            if !prov.ok(s) {
                bad_prov(rep, "remap_class", s);
            }
        }
        felt |= x != v.class(cl);
        let t = c.throwable(cl, Some("msg"));
        if let Some((s, _)) = t {
            if !prov.ok(s) {
                bad_prov(rep, "remap_throwable", s);
            }
        }
        for me in names.methods.iter().take(6) {
            let x = c.method(cl, me);
            rep.count("evaluations", 1);
            if let Some((a, b)) = x {
                if !prov.ok(a) || !prov.ok(b) {
                    bad_prov(rep, "remap_method", a);
                }
            }
            felt |= x != v.method(cl, me);
            for (i, l) in LINES.iter().enumerate() {
                let file = if i % 2 == 0 { None } else { Some("Q.java") };
                c.frames(cl, me, *l, file, None, &mut got);
                rep.count("evaluations", 1);
                let prov = Prov { buf: brange, parts: vec![cl.as_str(), me.as_str(), "Q.java"] };
                for f in &got {
                    for s in [Some(f.class), Some(f.method), f.file].into_iter().flatten() {
                        if !prov.ok(s) {
                            bad_prov(rep, "remap_frame(by line)", s);
                        }
                    }
                }
                v.frames(cl, me, *l, file, None, &mut ref_);
                felt |= got != ref_;
            }
            for p in names.args.iter().take(4) {
                c.frames(cl, me, 0, None, Some(p), &mut got);
                rep.count("evaluations", 1);
                let prov = Prov { buf: brange, parts: vec![cl.as_str(), me.as_str(), p.as_str()] };
                for f in &got {
                    for s in [Some(f.class), Some(f.method), f.file, f.params].into_iter().flatten() {
                        if !prov.ok(s) {
                            bad_prov(rep, "remap_frame(by params)", s);
                        }
                    }
                }
                v.frames(cl, me, 0, None, Some(p), &mut ref_);
                felt |= got != ref_;
            }
        }
    }
    for t in traces {
        let printed = t.print();
        let _ = c.text(&printed);
        let _ = c.typed(t);
        rep.count("evaluations", 2);
    }
    for s in ["(La;[I)V", "(La/a;Lb;)La.b;", "()Lunknown/K;"] {
        let _ = c.sig(s);
        rep.count("evaluations", 1);
    }
    // signature strings: descriptors over the file's class names (the lookups read the
    // possibly corrupted class table), every single edit of one of them, and arbitrary
    // strings over the descriptor delimiters with multi-byte characters at slice ends
    {
        let mut r = Rng::new(pgvcore::rng::mix(&[case_idx, pgvcore::util::fnv1a(desc.as_bytes()), buf.len() as u64]));
        let d = pgvcore::desc::gen_desc(&mut r, &names.classes).print();
        let _ = c.sig(&d);
        rep.count("evaluations", 1);
        let slow = cfg!(miri) || std::env::var_os("PGV_SLOW").is_some();
        let edits = if d.len() < 200 { pgvcore::desc::single_edits(&d) } else { vec![] };
        for e in edits.iter().take(if slow { 8 } else { 40 }) {
            let _ = c.sig(e);
            rep.count("evaluations", 1);
            rep.count("signature_queries_single_edit", 1);
        }
        for _ in 0..(if slow { 4 } else { 12 }) {
            let s = pgvcore::desc::arbitrary_sig(&mut r);
            if !s.is_ascii() {
                rep.count("signature_queries_with_multibyte", 1);
            }
            let _ = c.sig(&s);
            rep.count("evaluations", 1);
        }
    }
    if felt {
        rep.count("corruptions_felt_by_a_query", 1);
        rep.distinct(Fp::new().bytes(buf.as_slice()).get());
    }
    if rep.wants_sample() && felt {
        let mut s = Json::obj();
        s.set("corruption", Json::s(desc));
        s.set("buffer_len", Json::i(buf.len() as u64));
        rep.sample(s);
    }
}
