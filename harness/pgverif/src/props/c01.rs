//! C01 — line-based retrace returns exactly the recorded call stack.
//! Oracle: reference model M over the generator's AST; all printing variants
//! of one AST are checked against the same model answers.

use crate::api::*;
use crate::common::*;
use crate::cur;
use crate::report::{Ctx, Reporter, Tier};
use pgvcore::ast::{is_representable, Gen, GenCfg, MapAst};
use pgvcore::model::{case, Model};
use pgvcore::traces::{names_of, Names};
use pgvcore::util::{AlignedBuf, Json};

pub fn cfg_for(case: u64) -> GenCfg {
    let mut cfg = GenCfg::default();
    match case % 5 {
        0 => {
            cfg.max_blocks = 3;
            cfg.max_items = 14;
        }
        1 => {
            cfg.max_blocks = 12;
            cfg.max_items = 6;
            cfg.dup_class_pct = 25;
        }
        2 => {
            cfg.srcfile_pct = 30;
            cfg.inline_pct = 30;
        }
        3 => {
            // few classes with many members in mixed name order (orderings that
            // only go wrong beyond small-slice thresholds)
            cfg.max_blocks = 2;
            cfg.max_items = 48;
            cfg.inline_pct = 25;
        }
        _ => {}
    }
    cfg
}

pub fn run(ctx: &Ctx, rep: &mut Reporter) {
    for case_idx in ctx.case_range() {
        let mut rng = ctx_rng(ctx, case_idx);
        let ast = if case_idx % 101 == 7 && !ctx.slow() {
            // one obfuscated method with hundreds of applicable entries
            rep.count("huge_group_asts", 1);
            let n = 257 + rng.below(400);
            pgvcore::ast::huge_group_ast(&mut rng, n)
        } else {
            Gen::new(&mut rng, cfg_for(case_idx)).ast()
        };
        if !is_representable(&ast) {
            rep.count("skipped_unrepresentable", 1);
            continue;
        }
        let model = Model::new(&ast);
        let names = names_of(&ast);
        let vars = variants(&ast, &mut rng, ctx.tier == Tier::Thorough && case_idx % 4 == 0, true);
        rep.count("asts", 1);
        for var in &vars {
            rep.count("variants", 1);
            let r = guarded(|| check_variant(&var.text, &var.name, &model, &names, rep, case_idx));
            if let Err(p) = r {
                panic_violation(rep, case_idx, "panic", &p, mapping_detail(&var.text, &var.name));
            }
        }
        if rep.wants_sample() {
            let mut s = Json::obj();
            s.set("mapping", crate::report::text_json(&vars[0].text));
            s.set("variants", Json::Arr(vars.iter().map(|v| Json::s(v.name.clone())).collect()));
            s.set("classes_in_universe", Json::i(names.classes.len() as u64));
            s.set("lines_in_universe", Json::i(names.lines.len() as u64));
            rep.sample(s);
        }
    }
}

pub fn check_variant(text: &[u8], vname: &str, model: &Model<'_>, names: &Names, rep: &mut Reporter, case_idx: u64) {
    let m = cur::mapper(text, false);
    let mp = cur::mapper(text, true);
    let bytes = match cur::write_cache(text) {
        Ok(b) => b,
        Err(e) => {
            let mut d = mapping_detail(text, vname);
            d.set("error", Json::s(e.to_string()));
            rep.violation(case_idx, "cache-write", "cache write to Vec failed", d);
            return;
        }
    };
    let buf = AlignedBuf::from_bytes(&bytes);
    let cache = match cur::parse_cache(buf.as_slice()) {
        Ok(c) => c,
        Err(e) => {
            let mut d = mapping_detail(text, vname);
            d.set("error", Json::s(format!("{e:?}")));
            rep.violation(case_idx, "cache-parse", "freshly written cache rejected", d);
            return;
        }
    };
    let base = ast_fp(text);
    let mut exp = vec![];
    let mut got = vec![];
    let reused = ReusedQuery::new();
    let mut qn = 0u64;
    for_each_line_query(model, names, |c, me, l, file| {
        let bits = model.frames_by_line(c, me, l as u128, file, &mut exp);
        rep.cases(bits);
        if !exp.is_empty() {
            rep.distinct(q_fp(base, c, me, l, file.is_some(), None));
            rep.count("nonempty_expected", 1);
            if exp.len() > 256 {
                rep.count("answers_with_more_than_256_frames", 1);
            }
        }
        // every fifth query is FIRST asked by a caller that drops the iterator after one or two
        // frames: what an abandoned iterator leaves behind must not change later answers
        if qn % 5 == 4 && !exp.is_empty() {
            let k = 1 + (qn as usize / 5) % 2;
            let _ = (m.frames_partial(c, me, l as usize, file, k), mp.frames_partial(c, me, l as usize, file, k), cache.frames_partial(c, me, l as usize, file, k));
            rep.count("queries_first_asked_with_an_abandoned_iterator", 1);
        }
        for which in 0..3 {
            match which {
                0 => m.frames(c, me, l as usize, file, None, &mut got),
                1 => mp.frames(c, me, l as usize, file, None, &mut got),
                _ => cache.frames(c, me, l as usize, file, None, &mut got),
            }
            rep.count("evaluations", 1);
            if !frames_equal_model(&got, &exp) {
                let who = ["mapper", "mapper+params", "cache"][which];
                let mut d = mapping_detail(text, vname);
                d.set("implementation", Json::s(who));
                d.set("query", query_json(c, me, l, file, None));
                d.set("expected", show_mframes(&exp));
                d.set("actual", show_frames(&got));
                let sig = format!("by-line answer differs from model impl={} {}", who, diff_signature(&got, &exp, bits));
                rep.violation(case_idx, "model-by-line", &sig, d);
            }
        }
        // every third query once more with class, method and file served from one reused
        // allocation (same addresses as the previous such query)
        qn += 1;
        if qn % 3 == 0 && ReusedQuery::fits(c) && ReusedQuery::fits(me) {
            for which in 0..3 {
                got.clear();
                let (rc, rm, rf) = (reused.put(0, c), reused.put(1, me), file.map(|f| reused.put(2, f)));
                match which {
                    0 => m.frames(rc, rm, l as usize, rf, None, &mut got),
                    1 => mp.frames(rc, rm, l as usize, rf, None, &mut got),
                    _ => cache.frames(rc, rm, l as usize, rf, None, &mut got),
                }
                rep.count("evaluations", 1);
                rep.count("queries_from_reused_storage", 1);
                if !frames_equal_model(&got, &exp) {
                    let who = ["mapper", "mapper+params", "cache"][which];
                    let mut d = mapping_detail(text, vname);
                    d.set("implementation", Json::s(who));
                    d.set("query", query_json(c, me, l, file, None));
                    d.set("expected", show_mframes(&exp));
                    d.set("actual", show_frames(&got));
                    rep.violation(case_idx, "model-by-line", &format!("by-line answer differs from model when the query strings come from reused storage impl={who}"), d);
                }
                got.clear();
            }
        }
    });
}

/// Coarse structural signature of a mismatch: which field differs first and
/// the model cases relevant to that field.
pub fn diff_signature(got: &[NFrame<'_>], exp: &[pgvcore::model::MFrame<'_>], bits: u32) -> String {
    let file_bits = case::SOURCE_FILE | case::SYNTHETIC | case::FOREIGN_NO_FILE | case::QUERY_FILE | case::SRCFILE_RESET;
    let line_bits = case::RANGE_OFFSET | case::COLLAPSE | case::CALL_SITE | case::IDENTITY | case::NO_RANGE;
    let len_bits = case::INVERTED_SKIPPED | case::DUP_CLASS_OVERRIDE | case::UNKNOWN_CLASS | case::UNKNOWN_METHOD | case::INLINE_FILTERED | case::DEDUP_HIT | case::NON_FIRST_CLASS;
    if got.len() != exp.len() {
        let dir = if got.len() < exp.len() { "fewer" } else { "more" };
        return format!("diff=frame-count({dir}) cases={}", case_names(bits & len_bits));
    }
    for (g, e) in got.iter().zip(exp) {
        if g.class != e.class {
            return format!("diff=class cases={}", case_names(bits & (case::FOREIGN_CLASS | case::DUP_CLASS_OVERRIDE)));
        }
        if g.method != e.method {
            return "diff=method".to_string();
        }
        if g.line as u128 != e.line {
            return format!("diff=line cases={}", case_names(bits & line_bits));
        }
        if g.file != e.file {
            return format!("diff=file cases={}", case_names(bits & file_bits));
        }
        if g.params != e.params {
            return "diff=params".to_string();
        }
    }
    "diff=none".to_string()
}

pub fn case_names(bits: u32) -> String {
    let mut v = vec![];
    for i in 0..case::N {
        if bits & (1 << i) != 0 {
            v.push(case::NAMES[i]);
        }
    }
    v.join("|")
}

#[allow(dead_code)]
pub fn _unused(_: &MapAst) {}
