//! C06 — parsing is total and a bad line never affects the lines after it.
//! Oracles: invariants on every yielded item + the metamorphic concatenation
//! law records(A + nl + B) == records(A) ++ records(B) on complete item
//! sequences (errors identified by their line without terminators).

use crate::api::*;
use crate::common::*;
use crate::cur;
use crate::props::c02::{load_corpus, CORPUS};
use crate::report::{text_json, Ctx, Reporter, Tier};
use pgvcore::ast::{Gen, GenCfg, Term};
use pgvcore::mutate::{mutate_tokens, random_bytes, token_soup};
use pgvcore::rng::Rng;
use pgvcore::util::{Fp, Json};

pub const EXH_CASE: u64 = u64::MAX - 1;
pub const EXH_LAW_CASE: u64 = u64::MAX - 2;
pub const CORPUS_CASE: u64 = u64::MAX - 3;

fn has_nl(s: &str) -> bool {
    s.contains('\n') || s.contains('\r')
}

/// Which field (if any) of a record contains a line terminator.
fn field_with_newline(r: &NRec<'_>) -> Option<&'static str> {
    match r {
        NRec::Header { key, value } => {
            if has_nl(key) {
                Some("header key")
            } else if value.map_or(false, has_nl) {
                Some("header value")
            } else {
                None
            }
        }
        NRec::Class { original, obfuscated } => {
            if has_nl(original) {
                Some("class original")
            } else if has_nl(obfuscated) {
                Some("class obfuscated")
            } else {
                None
            }
        }
        NRec::Field { ty, original, obfuscated } => {
            if has_nl(ty) || has_nl(original) || has_nl(obfuscated) {
                Some("field part")
            } else {
                None
            }
        }
        NRec::Method { ty, original, obfuscated, arguments, original_class, .. } => {
            if has_nl(ty) {
                Some("method type")
            } else if has_nl(original) {
                Some("method original")
            } else if has_nl(obfuscated) {
                Some("method obfuscated")
            } else if has_nl(arguments) {
                Some("method arguments")
            } else if original_class.map_or(false, has_nl) {
                Some("method original class")
            } else {
                None
            }
        }
    }
}

/// records(X) with the invariants checked. Returns normalised items.
fn records_checked<'t>(x: &'t [u8], rep: &mut Reporter, case_idx: u64, what: &str) -> Vec<NItem<'t>> {
    let (items, more) = cur::records(x, x.len() + 2);
    rep.count("evaluations", 1);
    if more || items.len() > x.len() {
        let mut d = Json::obj();
        d.set("input", text_json(x));
        d.set("items", Json::i(items.len() as u64));
        d.set("bytes", Json::i(x.len() as u64));
        rep.violation(case_idx, "item-count", "more items than input bytes (or non-termination)", d);
    }
    let mut has_err = false;
    let mut has_rec = false;
    for it in &items {
        match it {
            Ok(r) => {
                has_rec = true;
                if let Some(f) = field_with_newline(r) {
                    let mut d = Json::obj();
                    d.set("input", text_json(x));
                    d.set("record", Json::s(format!("{r:?}")));
                    d.set("where", Json::s(what));
                    rep.violation(case_idx, "no-terminator-in-fields", &format!("a yielded {f} contains a line terminator"), d);
                }
            }
            Err(_) => has_err = true,
        }
    }
    if has_err && has_rec {
        rep.count("inputs_with_error_and_record", 1);
    }
    items.into_iter().map(|g| g.map_err(strip_terms)).collect()
}

fn is_empty_err(i: &NItem<'_>) -> bool {
    matches!(i, Err(l) if l.is_empty())
}

pub fn law(a: &[u8], sep: &[u8], b: &[u8], rep: &mut Reporter, case_idx: u64) {
    let mut ab = Vec::with_capacity(a.len() + sep.len() + b.len());
    ab.extend_from_slice(a);
    ab.extend_from_slice(sep);
    ab.extend_from_slice(b);
    let ra = records_checked(a, rep, case_idx, "A");
    let rb = records_checked(b, rep, case_idx, "B");
    let rab = records_checked(&ab, rep, case_idx, "A+nl+B");
    rep.count("law_applications", 1);
    // the same law through the positional entry points of the iterator
    {
        let show = |v: &[NItem<'_>]| v.iter().map(|g| format!("{:?}", g.clone().map_err(strip_terms))).collect::<Vec<_>>();
        let lim = ra.len() + rb.len() + 4;
        let skipped = show(&cur::records_skip(&ab, ra.len(), lim));
        let (cnt, _) = cur::records_count_last(&ab);
        let nth = cur::records_nth(&ab, ra.len()).map(|g| format!("{:?}", g.map_err(strip_terms)));
        let via_next = show(&rab);
        let tail: Vec<String> = via_next.iter().skip(ra.len()).cloned().collect();
        rep.count("positional_entry_point_checks", 1);
        if skipped != tail || cnt != rab.len() || nth != tail.first().cloned() {
            let mut d = Json::obj();
            d.set("A", text_json(a));
            d.set("separator", text_json(sep));
            d.set("B", text_json(b));
            d.set("next_sequence", Json::s(format!("{via_next:?}")));
            d.set("skip_len_records_A", Json::s(format!("{skipped:?}")));
            d.set("count", Json::i(cnt as u64));
            rep.violation(case_idx, "concatenation-law", "skip/nth/count over A+nl+B disagree with the next() sequence", d);
        }
    }
    let exp: Vec<&NItem<'_>> = ra.iter().chain(rb.iter()).collect();
    let got: Vec<&NItem<'_>> = rab.iter().collect();
    if !ra.is_empty() && !rb.is_empty() {
        rep.distinct(Fp::new().bytes(&ab).get());
    }
    if exp != got {
        // the weaker reading: Ok records only
        let ok_only = |v: &[&NItem<'_>]| v.iter().filter(|i| i.is_ok()).map(|i| format!("{i:?}")).collect::<Vec<_>>();
        let weak_holds = ok_only(&exp) == ok_only(&got);
        let strip = |v: &[&NItem<'_>]| v.iter().filter(|i| !is_empty_err(i)).map(|i| format!("{i:?}")).collect::<Vec<_>>();
        let only_phantom = strip(&exp) == strip(&got);
        let multi_line_value = ra.iter().chain(rb.iter()).chain(rab.iter()).any(|i| matches!(i, Ok(r) if field_with_newline(r).is_some()));
        let sig = if only_phantom {
            "concatenation law fails only by an empty error item (phantom error for trailing terminators at end of input)"
        } else if multi_line_value {
            "concatenation law fails: a yielded value spans several lines"
        } else {
            "concatenation law fails: items differ"
        };
        if !weak_holds {
            rep.count("law_failures_also_under_ok_records_only_reading", 1);
        }
        let mut d = Json::obj();
        d.set("A", text_json(a));
        d.set("separator", text_json(sep));
        d.set("B", text_json(b));
        d.set("records_A", Json::s(format!("{ra:?}")));
        d.set("records_B", Json::s(format!("{rb:?}")));
        d.set("records_A_nl_B", Json::s(format!("{rab:?}")));
        d.set("holds_under_ok_records_only_reading", Json::Bool(weak_holds));
        rep.violation(case_idx, "concatenation-law", sig, d);
    }
}

/// A well-formed line whose numbers are replaced by boundary values and huge digit
/// runs, cut off at an arbitrary byte (often right behind a number or in front of the arrow).
fn truncated_line(rng: &mut Rng) -> Vec<u8> {
    fn num(rng: &mut Rng) -> String {
        match rng.below(10) {
            0 => "0".into(),
            1 => "4294967295".into(),
            2 => "4294967296".into(),
            3 => "18446744073709551615".into(),
            4 => "18446744073709551616".into(),
            5 => "9".repeat(26),
            6 => "1".repeat(40 + rng.below(40)),
            7 => "-1".into(),
            8 => String::new(),
            _ => (1 + rng.below(200)).to_string(),
        }
    }
    let (a, b, c, d) = (num(rng), num(rng), num(rng), num(rng));
    let line = match rng.below(8) {
        0 => format!("    {a}:{b}:void com.a.B.run(int,java.lang.String):{c}:{d} -> a"),
        1 => format!("    {a}:{b}:void run():{c} -> a"),
        2 => format!("    void run():{c}:{d} -> a"),
        3 => format!("    {a}:{b}:int[] run(long) -> a"),
        4 => "com.example.Foo -> a.b:".to_string(),
        5 => "    int field -> f".to_string(),
        6 => "# {\"id\":\"sourceFile\",\"fileName\":\"Foo.kt\"}".to_string(),
        _ => format!("    {a}:{b}:void run():{c}:{d}"),
    };
    let cut = match rng.below(4) {
        0 => line.len(),
        1 => line.find(" -> ").unwrap_or(line.len()),
        2 => line.rfind(|ch: char| ch.is_ascii_digit()).map_or(line.len(), |i| i + 1),
        _ => rng.below(line.len() + 1),
    };
    line.as_bytes()[..cut].to_vec()
}

/// One line longer than 64 KiB (a u16 length, a bounded search window, a fixed buffer),
/// in every shape whose scan for a delimiter or for the end of the line could be cut short.
fn long_line(rng: &mut Rng) -> Vec<u8> {
    let n = *rng.pick(&[65_520usize, 65_534, 65_535, 65_536, 65_537, 65_560, 70_000, 131_080]);
    let unit: &str = *rng.pick(&["a", "a", " ", "é", "x.y", "\0", "1", "-"]);
    let mut filler = String::with_capacity(n + 8);
    while filler.len() < n {
        filler.push_str(unit);
    }
    match rng.below(8) {
        0 => format!("#{filler}"),
        1 => format!("# key: {filler}"),
        2 => format!("    int name -> {filler}"),
        3 => format!("com.a.B -> {filler}:"),
        4 => format!("    1:2:void {filler}(int) -> a"),
        5 => format!("# {{\"id\":\"sourceFile\",\"fileName\":\"{filler}\"}}"),
        6 => format!("    1:2:void m({filler}):3:4 -> a"),
        _ => filler,
    }
    .into_bytes()
}

/// Two pieces whose lines RELATE to each other across the split point: whatever the
/// iterator remembers from the lines of A (a class name, a qualifier, a member name, a
/// range) must not change what the lines of B parse to.
fn related_pair(rng: &mut Rng) -> (Vec<u8>, Vec<u8>) {
    let q = *rng.pick(&["a.b", "org.lib.Tool", "com.example.Main", "x", "p.q$r"]);
    let m = *rng.pick(&["close", "run", "<init>", "a"]);
    let first = match rng.below(6) {
        0 => format!("    1:1:void {q}.{m}():7:7 -> {m}"),
        1 => format!("{q} -> z.y:"),
        2 => format!("    void {q}.{m}(int) -> o"),
        3 => format!("{q} -> {q}:"),
        4 => format!("    1:3:void {m}():10:12 -> o"),
        _ => format!("    1:1:void {q}.{m}():7:7 -> "), // truncated: an error that mentions the qualifier
    };
    let second = match rng.below(9) {
        0 => format!("    2:2:void {q}.c.{m}():9:9 -> p"),          // qualifier extends the earlier one by a segment
        1 => format!("    2:2:void {q}$c.{m}():9:9 -> p"),
        2 => format!("    2:2:void {q}.{m}():9:9 -> p"),            // the same qualifier and name again
        3 => format!("    void {q}x.{m}() -> p"),                   // a string prefix, not a dotted one
        4 => format!("    int {m} -> p"),                            // a field named like the method
        5 => format!("{q}.c -> z.y:"),
        6 => format!("    4:6:void {m}():13:15 -> o"),               // continues the earlier range
        7 => format!("    void {}() -> {m}", q.rsplit('.').next().unwrap_or(q)),
        _ => format!("# {{\"id\":\"sourceFile\",\"fileName\":\"{}.kt\"}}", q.rsplit('.').next().unwrap_or(q)),
    };
    let mut a = first.into_bytes();
    if rng.chance(1, 3) {
        let mut pre = hostile_piece(rng);
        pre.push(b'\n');
        pre.extend_from_slice(&a);
        a = pre;
    }
    let mut b = second.into_bytes();
    if rng.chance(1, 3) {
        b.push(b'\n');
        b.extend_from_slice(&hostile_piece(rng));
    }
    (a, b)
}

fn hostile_piece(rng: &mut Rng) -> Vec<u8> {
    if rng.chance(1, 300) {
        return long_line(rng);
    }
    match rng.below(16) {
        13 | 14 | 15 => {
            let mut v = truncated_line(rng);
            // now and then further lines follow inside the same piece
            if rng.chance(1, 3) {
                v.extend_from_slice(*rng.pick(&[b"\n".as_slice(), b"\r\n", b"\r"]));
                v.extend_from_slice(&truncated_line(rng));
            }
            v
        }
        0 => random_bytes(rng, 40),
        1 | 2 => token_soup(rng, 14),
        3 => {
            // unterminated sourceFile header (ending in every character that could matter
            // to a string scanner) followed by lines containing `"}`
            let mut v = b"# {\"id\":\"sourceFile\",\"fileName\":\"abc".to_vec();
            let tail: &[u8] = *rng.pick(&[b"".as_slice(), b"\\", b"\\\"", b"\"", b"\"}x", b"{", b"'", b"\\\\", b"\xc3", b" ", b"\t"]);
            v.extend_from_slice(tail);
            if rng.chance(2, 3) {
                let nl: &[u8] = *rng.pick(&[b"\n".as_slice(), b"\r\n", b"\r"]);
                v.extend_from_slice(nl);
                v.extend_from_slice(*rng.pick(&[b"orig.A -> a:\n    void foo() -> x\n# \"}\n".as_slice(), b"\"}\n", b"x\"}", b"    void f() -> a\n\"}\nb.C -> c:\n"]));
            }
            v
        }
        4 => rng
            .pick(&[
                b"    1:2:void foo():\xb2\xb3 -> a".as_slice(),
                "    \u{b2}:3:void m() -> a".as_bytes(),
                "    1\u{bd}:3:void m() -> a".as_bytes(),
                "    \u{2460}x f -> a".as_bytes(),
                "    1:\u{663}:void m() -> a".as_bytes(),
                "    void m():1\u{b2} -> a".as_bytes(),
                "    1:2:void m():3:\u{2460}\u{2461}\u{2462} -> a".as_bytes(),
            ])
            .to_vec(),
        5 => format!("    {}:5:void foo() -> a", "9".repeat(30)).into_bytes(),
        6 => b"a.B -> \xff\xfe:".to_vec(),
        7 => {
            let mut r2 = rng.fork();
            let mut cfg = GenCfg::default();
            cfg.hostile = true;
            cfg.max_blocks = 3;
            let ast = Gen::new(&mut r2, cfg).ast();
            let t = *rng.pick(&Term::ALL);
            ast.with_noise(rng, 20).print(t, rng.chance(1, 2), rng)
        }
        8 => {
            let mut r2 = rng.fork();
            let ast = Gen::new(&mut r2, GenCfg { max_blocks: 2, ..Default::default() }).ast();
            let base = ast.print(Term::Lf, true, rng);
            let k = 1 + rng.below(8);
            mutate_tokens(&base, rng, k, false)
        }
        9 => {
            let n = rng.below(4);
            let t: &[u8] = *rng.pick(&[b"\n".as_slice(), b"\r\n", b"\r"]);
            t.repeat(n)
        }
        10 => {
            let l = *rng.pick(&[
                "x",
                "a -> b:",
                "    void f() -> a",
                "# c: d",
                "# {\"id\":\"sourceFile\",\"fileName\":\"F.kt\"}",
                "bad line",
                // lines that yield two items: a record followed by an error for the rest of the line
                "a -> b:garbage",
                "a -> b:    void f() -> c",
                "# {\"id\":\"sourceFile\",\"fileName\":\"F.kt\"}junk",
                "a -> b:c -> d:e",
            ]);
            let t = *rng.pick(&["", "\n", "\r\n", "\n\n", "\r", "\r\n\r\n"]);
            format!("{l}{t}").into_bytes()
        }
        _ => {
            // bytes that a "helpful" reader might treat specially at the start of the input only
            let mut v: Vec<u8> = rng.pick(&[b"\xEF\xBB\xBF".as_slice(), b"\xFF\xFE", b"\xEF\xBB\xBF\xEF\xBB\xBF", b"\0", b"\x1a", b""]).to_vec();
            v.extend_from_slice(*rng.pick(&[b"b.B -> b:\n".as_slice(), b"# k: v\n", b"", b"    void f() -> a\n", b"x"]));
            v
        }
    }
}

const ALPHA9: [u8; 9] = [b'a', b'1', b' ', b':', b'(', b')', b'-', b'>', b'\n'];

fn nth_string(mut i: u64, len: u32) -> Vec<u8> {
    let mut s = Vec::with_capacity(len as usize);
    for _ in 0..len {
        s.push(ALPHA9[(i % 9) as usize]);
        i /= 9;
    }
    s
}

const PROBES: &[&str] = &[
    "",
    "a -> b:",
    "a -> b:\n    void f() -> c\n",
    "    1:2:void f():3:4 -> c",
    "# k: v\n",
    "x",
    "x\n",
    "\n",
    "\r\n",
    "# {\"id\":\"sourceFile\",\"fileName\":\"F\"}\n",
    " -> ",
    "a -> b",
    "    int f -> g\n",
    "):",
    "1:",
    "    ",
    "    a(",
    "#",
    "a -> b:x",
    "\"}",
    "\"}\nq.R -> s:\n",
    "x\"}\n",
    "\u{feff}b.B -> b:\n",
    "\u{feff}# k: v",
    "\u{feff}",
];

fn exhaustive(ctx: &Ctx, rep: &mut Reporter, max_len: u32) {
    let mut total: u64 = 0;
    for len in 0..=max_len {
        let n = 9u64.pow(len);
        for i in 0..n {
            if (total + i) % ctx.nshards != ctx.shard {
                continue;
            }
            let s = nth_string(i, len);
            let r = guarded(|| {
                let _ = records_checked(&s, rep, EXH_CASE, "exhaustive");
            });
            if let Err(p) = r {
                let mut d = Json::obj();
                d.set("input", text_json(&s));
                panic_violation(rep, EXH_CASE, "panic", &p, d);
            }
            rep.count("exhaustive_strings", 1);
        }
        total += n;
    }
}

fn exhaustive_law(ctx: &Ctx, rep: &mut Reporter, max_len: u32) {
    let mut total: u64 = 0;
    for len in 0..=max_len {
        let n = 9u64.pow(len);
        for i in 0..n {
            if (total + i) % ctx.nshards != ctx.shard {
                continue;
            }
            let a = nth_string(i, len);
            for (k, b) in PROBES.iter().enumerate() {
                let sep: &[u8] = [b"\n".as_slice(), b"\r\n", b"\r"][(k + i as usize) % 3];
                let r = guarded(|| law(&a, sep, b.as_bytes(), rep, EXH_LAW_CASE));
                if let Err(p) = r {
                    let mut d = Json::obj();
                    d.set("A", text_json(&a));
                    d.set("B", Json::s(*b));
                    panic_violation(rep, EXH_LAW_CASE, "panic", &p, d);
                }
            }
            rep.count("exhaustive_law_prefixes", 1);
        }
        total += n;
    }
}

fn corpus_splits(ctx: &Ctx, rep: &mut Reporter, per_file: usize) {
    let mut rng = Rng::new(ctx.case_seed(CORPUS_CASE));
    for fi in 0..CORPUS.len() {
        if (fi as u64) % ctx.nshards != ctx.shard % (CORPUS.len() as u64).min(ctx.nshards) && ctx.nshards > 1 {
            continue;
        }
        let data = load_corpus(fi);
        // bound the cost: work on a window of the big files
        let data = if data.len() > 60_000 { crate::props::c02::corpus_window(&data, &mut rng, 600) } else { data };
        let nls: Vec<usize> = data.iter().enumerate().filter(|(_, b)| **b == b'\n').map(|(i, _)| i).collect();
        for _ in 0..per_file {
            if nls.is_empty() {
                break;
            }
            let cut = *rng.pick(&nls);
            let (a, b) = (&data[..cut], &data[cut + 1..]);
            let r = guarded(|| law(a, b"\n", b, rep, CORPUS_CASE));
            if let Err(p) = r {
                panic_violation(rep, CORPUS_CASE, "panic", &p, Json::obj());
            }
            rep.count("corpus_split_points", 1);
        }
    }
}

/// "A malformed line can only turn itself into an error" at the level of the consumers of
/// the record stream: a mapper and a cache built from a file with unparseable lines strewn
/// in (also inside inline groups and between a class line and its members) answer every
/// query like those built from the file without them.
fn noise_invariance(rng: &mut Rng, rep: &mut Reporter, case_idx: u64) {
    use crate::diffmon::{diff_remap, make_extras, names_from_universe, DiffOpts};
    let mut cfg = crate::props::c01::cfg_for(case_idx / 8);
    cfg.max_blocks = cfg.max_blocks.min(6);
    cfg.inline_pct = 35;
    let ast = Gen::new(rng, cfg).ast();
    let clean = ast.print(Term::Lf, true, rng);
    let noisy = ast.with_noise(rng, 40).print(*rng.pick(&Term::ALL), rng.chance(1, 2), rng);
    let (items, _) = cur::records(&clean, usize::MAX);
    let u = crate::universe::from_records(&items, false);
    drop(items);
    if !u.in_domain {
        return;
    }
    let names = names_from_universe(&u);
    let ex = make_extras(&names, rng, 2, 2, 2);
    let (m0, m1) = (cur::mapper(&clean, true), cur::mapper(&noisy, true));
    let (b0, b1) = (cur::write_cache(&clean).expect("write to Vec"), cur::write_cache(&noisy).expect("write to Vec"));
    let (a0, a1) = (pgvcore::util::AlignedBuf::from_bytes(&b0), pgvcore::util::AlignedBuf::from_bytes(&b1));
    let (Ok(c0), Ok(c1)) = (cur::parse_cache(a0.as_slice()), cur::parse_cache(a1.as_slice())) else { return };
    rep.count("noise_invariance_files", 1);
    let mk = || {
        let mut d = Json::obj();
        d.set("clean", text_json(&clean[..clean.len().min(4000)]));
        d.set("with_unparseable_lines", text_json(&noisy[..noisy.len().min(6000)]));
        d
    };
    diff_remap(&m0, &m1, &u, &ex, &DiffOpts { la: "mapper of the clean file", lb: "mapper of the file with unparseable lines", by_params: true, typed: true, signature_prefix: "unparseable lines change the answers: " }, rep, case_idx, 1, &mk);
    diff_remap(&c0, &c1, &u, &ex, &DiffOpts { la: "cache of the clean file", lb: "cache of the file with unparseable lines", by_params: true, typed: true, signature_prefix: "unparseable lines change the answers: " }, rep, case_idx, 2, &mk);
}

pub fn run(ctx: &Ctx, rep: &mut Reporter) {
    let special = |c: u64| ctx.only_case.is_none() || ctx.only_case == Some(c);
    let thorough = ctx.tier == Tier::Thorough;
    if special(EXH_CASE) && !ctx.slow() {
        exhaustive(ctx, rep, if thorough { 7 } else { 6 });
    }
    if special(EXH_LAW_CASE) && !ctx.slow() {
        exhaustive_law(ctx, rep, if thorough { 5 } else { 4 });
    }
    if special(CORPUS_CASE) && !ctx.slow() {
        corpus_splits(ctx, rep, if thorough { 200 } else { 20 });
    }
    for case_idx in ctx.case_range() {
        if case_idx >= CORPUS_CASE {
            continue;
        }
        let mut rng = ctx_rng(ctx, case_idx);
        if case_idx % 16 == 5 && !ctx.slow() {
            let r = guarded(|| noise_invariance(&mut rng, rep, case_idx));
            if let Err(p) = r {
                panic_violation(rep, case_idx, "panic", &p, Json::obj());
            }
        }
        let (a, b) = if rng.chance(1, 8) {
            rep.count("pairs_whose_lines_relate_across_the_split_point", 1);
            related_pair(&mut rng)
        } else {
            (hostile_piece(&mut rng), hostile_piece(&mut rng))
        };
        let sep: &[u8] = *rng.pick(&[b"\n".as_slice(), b"\r\n", b"\r"]);
        let r = guarded(|| {
            law(&a, sep, &b, rep, case_idx);
            // the consumers of the record stream must not panic either
            let _m = cur::mapper(&a, true);
            let _ = cur::write_cache(&a);
        });
        if let Err(p) = r {
            let mut d = Json::obj();
            d.set("A", text_json(&a));
            d.set("B", text_json(&b));
            panic_violation(rep, case_idx, "panic", &p, d);
        }
        if std::str::from_utf8(&a).is_err() {
            rep.count("inputs_with_invalid_utf8", 1);
        }
        if a.len() > 65_000 || b.len() > 65_000 {
            rep.count("inputs_with_a_line_longer_than_64KiB", 1);
        }
        if rep.wants_sample() && !a.is_empty() && !b.is_empty() {
            let mut s = Json::obj();
            s.set("A", text_json(&a[..a.len().min(300)]));
            s.set("separator", text_json(sep));
            s.set("B", text_json(&b[..b.len().min(300)]));
            rep.sample(s);
        }
    }
}
