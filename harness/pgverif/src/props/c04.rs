//! C04 — class lookup is exact, method lookup never guesses when ambiguous.
//! Oracle: M.class / M.method + internal consistency between remap_method and
//! remap_frame.

use crate::api::*;
use crate::common::*;
use crate::cur;
use crate::report::{Ctx, Reporter};
use pgvcore::ast::{is_representable, Gen, GenCfg, Item, MapAst, Term};
use pgvcore::model::Model;
use pgvcore::util::{AlignedBuf, Fp, Json};

fn cfg_for(case: u64, slow: bool) -> GenCfg {
    let mut cfg = GenCfg::default();
    cfg.name_family = true;
    cfg.min_blocks = if slow { 10 } else { 50 };
    cfg.max_blocks = if slow { 25 } else { 400 };
    cfg.max_items = 4;
    cfg.dup_class_pct = 10;
    cfg.inline_pct = 15;
    cfg.srcfile_pct = 3;
    if case % 3 == 0 {
        cfg.max_blocks = cfg.max_blocks.min(80);
        cfg.max_items = 8;
    }
    if case % 5 == 1 {
        // few classes, many entries per obfuscated method name (long equal-key runs)
        cfg.min_blocks = 3;
        cfg.max_blocks = if slow { 4 } else { 12 };
        cfg.max_items = if slow { 12 } else { 90 };
        cfg.inline_pct = 30;
    }
    cfg
}

fn probes(ast: &MapAst) -> Vec<String> {
    let mut v: Vec<String> = vec![];
    for it in &ast.items {
        if let Item::Class { obf, .. } = it {
            v.push(obf.clone());
        }
    }
    v.sort();
    v.dedup();
    let base = v.clone();
    for n in &base {
        v.push(format!("{n}\0"));
        v.push(format!("x/{n}"));
        v.push(format!("{n}/x"));
        v.push(format!(" {n}"));
        v.push(format!("{n} "));
        v.push(n.replace('.', "/"));
        v.push(format!("{n}a"));
        v.push(format!("{n}$"));
        let mut p = n.clone();
        p.pop();
        v.push(p);
        let mut chars: Vec<char> = n.chars().collect();
        if let Some(l) = chars.last_mut() {
            if let Some(c) = char::from_u32((*l as u32).wrapping_sub(1)) {
                *l = c;
            }
        }
        v.push(chars.iter().collect());
        let flipped: String =
            n.chars().map(|c| if c.is_ascii_lowercase() { c.to_ascii_uppercase() } else { c.to_ascii_lowercase() }).collect();
        v.push(flipped);
    }
    v.push("unknown.Klass".into());
    v.push(String::new());
    v.push("\u{10FFFF}".into());
    v.sort();
    v.dedup();
    v
}

pub fn run(ctx: &Ctx, rep: &mut Reporter) {
    for case_idx in ctx.case_range() {
        let mut rng = ctx_rng(ctx, case_idx);
        let ast = Gen::new(&mut rng, cfg_for(case_idx, ctx.slow())).ast();
        let mut ast = ast;
        if case_idx % 2 == 0 {
            // a class with runs of k entries under one obfuscated method name in which exactly
            // one entry — the first, the last or one in the middle — has another original name:
            // every such method is ambiguous, however the run is searched
            use pgvcore::ast::MethodEntry;
            ast.items.push(Item::Class { orig: "com.example.Runs".into(), obf: "zz.runs".into() });
            let mut line = 1u128;
            for (gi, k) in [7usize, 8, 9, 13, 14, 15, 16, 25, 31, 32, 33, 64].iter().enumerate() {
                let odd = match (case_idx / 2 + gi as u64) % 3 {
                    0 => 0,
                    1 => k - 1,
                    _ => k / 2,
                };
                for i in 0..*k {
                    ast.items.push(Item::Method(MethodEntry {
                        start: Some(line),
                        end: Some(line + 1),
                        ret: "void".into(),
                        orig_class: None,
                        orig: if i == odd { "odd".into() } else { "same".into() },
                        args: "".into(),
                        ostart: Some(100 + line),
                        oend: None,
                        obf: format!("g{k}"),
                    }));
                    line += 3;
                }
            }
            rep.count("files_with_runs_of_7_to_64_entries_one_of_them_odd", 1);
        }
        if !is_representable(&ast) {
            rep.count("skipped_unrepresentable", 1);
            continue;
        }
        let model = Model::new(&ast);
        let pr = probes(&ast);
        let mut methods: Vec<String> = ast.methods().map(|m| m.obf.clone()).collect();
        methods.sort();
        methods.dedup();
        methods.push("unknownMethod".into());
        let term = *rng.pick(&Term::ALL);
        let ast_p = if rng.chance(1, 3) { ast.with_noise(&mut rng, 10) } else { ast.clone() };
        let text = ast_p.print(term, rng.chance(3, 4), &mut rng);
        rep.count("files", 1);
        if !ast.obf_classes_distinct() {
            rep.count("files_with_duplicate_class_names", 1);
        }
        rep.count(
            "identity_mapped_classes_without_methods",
            model.blocks.values().filter(|b| b.orig == b.obf && b.entries.is_empty()).count() as u64,
        );
        let r = guarded(|| check(&text, &model, &pr, &methods, rep, case_idx));
        if let Err(p) = r {
            panic_violation(rep, case_idx, "panic", &p, mapping_detail(&text, term.name()));
        }
        if rep.wants_sample() {
            let mut s = Json::obj();
            s.set("classes_in_file", Json::i(model.blocks.len() as u64));
            s.set("probes", Json::i(pr.len() as u64));
            s.set("example_probes", Json::Arr(pr.iter().take(12).map(|p| Json::s(p.clone())).collect()));
            s.set("mapping_head", crate::report::text_json(&text[..text.len().min(400)]));
            rep.sample(s);
        }
    }
}

fn check(text: &[u8], model: &Model<'_>, probes: &[String], methods: &[String], rep: &mut Reporter, case_idx: u64) {
    let m = cur::mapper(text, false);
    let mp = cur::mapper(text, true);
    let bytes = cur::write_cache(text).expect("write to Vec");
    let buf = AlignedBuf::from_bytes(&bytes);
    let cache = match cur::parse_cache(buf.as_slice()) {
        Ok(c) => c,
        Err(e) => {
            let mut d = mapping_detail(text, "");
            d.set("error", Json::s(format!("{e:?}")));
            rep.violation(case_idx, "cache-parse", "freshly written cache rejected", d);
            return;
        }
    };
    let base = ast_fp(text);
    let lines: [usize; 9] = [0, 1, 2, 5, 17, 40, 66, 65536, usize::MAX];
    let mut got = vec![];
    for c in probes {
        let exp = model.class(c);
        for which in 0..3 {
            let who = ["mapper", "cache", "mapper+params"][which];
            let g = match which {
                0 => m.class(c),
                1 => cache.class(c),
                _ => mp.class(c),
            };
            rep.count("evaluations", 1);
            if g != exp {
                let mut d = mapping_detail(text, "");
                d.set("implementation", Json::s(who));
                d.set("class", Json::s(c.clone()));
                d.set("expected", Json::s(format!("{exp:?}")));
                d.set("actual", Json::s(format!("{g:?}")));
                let kind = match (exp, g) {
                    (None, Some(_)) => "answers for a string that is not an obfuscated class name",
                    (Some(_), None) => "no answer for a class in the file",
                    _ => "wrong original (not the last class line)",
                };
                rep.violation(case_idx, "model-class", &format!("remap_class impl={who}: {kind}"), d);
            }
            let t = match which {
                0 => m.throwable(c, Some("m: x")),
                1 => cache.throwable(c, Some("m: x")),
                _ => mp.throwable(c, Some("m: x")),
            };
            rep.count("evaluations", 1);
            let texp = exp.map(|o| (o, Some("m: x")));
            if t != texp {
                let mut d = mapping_detail(text, "");
                d.set("implementation", Json::s(who));
                d.set("class", Json::s(c.clone()));
                d.set("expected", Json::s(format!("{texp:?}")));
                d.set("actual", Json::s(format!("{t:?}")));
                rep.violation(case_idx, "model-throwable", &format!("remap_throwable impl={who} differs from model"), d);
            }
        }
        match exp {
            Some(_) => {
                rep.count("lookups_some", 1);
                rep.distinct(Fp(base).str(c).get());
            }
            None => rep.count("lookups_none", 1),
        }
        if exp.is_none() {
            continue;
        }
        for me in methods {
            let mexp = model.method(c, me);
            for which in 0..3 {
                let who = ["mapper", "cache", "mapper+params"][which];
                let g = match which {
                    0 => m.method(c, me),
                    1 => cache.method(c, me),
                    _ => mp.method(c, me),
                };
                rep.count("evaluations", 1);
                if g != mexp {
                    let mut d = mapping_detail(text, "");
                    d.set("implementation", Json::s(who));
                    d.set("query", query_json(c, me, 0, None, None));
                    d.set("expected", Json::s(format!("{mexp:?}")));
                    d.set("actual", Json::s(format!("{g:?}")));
                    let kind = match (mexp, g) {
                        (None, Some(_)) => "answers although ambiguous or unknown",
                        (Some(_), None) => "no answer although unambiguous",
                        _ => "wrong answer",
                    };
                    rep.violation(case_idx, "model-method", &format!("remap_method impl={who}: {kind}"), d);
                }
                // consistency with line-based remapping
                if let Some((_, n)) = g {
                    for l in lines {
                        match which {
                            0 => m.frames(c, me, l, None, None, &mut got),
                            1 => cache.frames(c, me, l, None, None, &mut got),
                            _ => mp.frames(c, me, l, None, None, &mut got),
                        }
                        rep.count("evaluations", 1);
                        rep.count("consistency_checks", 1);
                        if let Some(bad) = got.iter().find(|f| f.method != n) {
                            let mut d = mapping_detail(text, "");
                            d.set("implementation", Json::s(who));
                            d.set("query", query_json(c, me, l as u64, None, None));
                            d.set("remap_method", Json::s(n));
                            d.set("frame", Json::s(bad.show()));
                            rep.violation(
                                case_idx,
                                "method-frame-consistency",
                                &format!("remap_method answered but a remapped frame carries another method name impl={who}"),
                                d,
                            );
                        }
                    }
                }
            }
            let run = model.blocks.get(c.as_str()).map_or(0, |b| b.entries.iter().filter(|e| e.m.obf == *me).count());
            if run >= 7 {
                rep.count("method_lookups_with_ge7_entries", 1);
            }
            match mexp {
                Some(_) => {
                    rep.count("method_lookups_some", 1);
                    rep.distinct(Fp(base).str(c).str(me).get());
                }
                None => {
                    let has = model.blocks.get(c.as_str()).map_or(false, |b| b.entries.iter().any(|e| e.m.obf == *me));
                    rep.count(if has { "method_lookups_ambiguous_none" } else { "method_lookups_unknown_none" }, 1);
                }
            }
        }
    }
    // The same lookups once more with every query string written into one reused buffer,
    // strings of equal length one after the other: an answer must depend on the characters
    // of the query, not on where they are stored or on what was asked before.
    let mut order: Vec<&String> = probes.iter().collect();
    order.sort_by_key(|s| s.len());
    let mut qb = String::with_capacity(1024);
    let mut mb = String::with_capacity(256);
    for (i, c) in order.iter().enumerate() {
        qb.clear();
        qb.push_str(c);
        let exp = model.class(c);
        for which in 0..3 {
            let who = ["mapper", "cache", "mapper+params"][which];
            let g = match which {
                0 => m.class(&qb),
                1 => cache.class(&qb),
                _ => mp.class(&qb),
            };
            rep.count("evaluations", 1);
            rep.count("lookups_from_a_reused_query_buffer", 1);
            if g != exp {
                let mut d = mapping_detail(text, "");
                d.set("implementation", Json::s(who));
                d.set("class", Json::s((*c).clone()));
                d.set("previous_query_in_the_same_buffer", Json::s(if i > 0 { order[i - 1].as_str() } else { "" }));
                d.set("expected", Json::s(format!("{exp:?}")));
                d.set("actual", Json::s(format!("{g:?}")));
                rep.violation(case_idx, "model-class", &format!("remap_class impl={who}: answer depends on the storage of the query string (reused buffer)"), d);
            }
            if exp.is_some() {
                for me in methods.iter().take(6) {
                    mb.clear();
                    mb.push_str(me);
                    let mexp = model.method(c, me);
                    let g = match which {
                        0 => m.method(&qb, &mb),
                        1 => cache.method(&qb, &mb),
                        _ => mp.method(&qb, &mb),
                    };
                    rep.count("evaluations", 1);
                    rep.count("lookups_from_a_reused_query_buffer", 1);
                    if g != mexp {
                        let mut d = mapping_detail(text, "");
                        d.set("implementation", Json::s(who));
                        d.set("query", query_json(c, me, 0, None, None));
                        d.set("expected", Json::s(format!("{mexp:?}")));
                        d.set("actual", Json::s(format!("{g:?}")));
                        rep.violation(case_idx, "model-method", &format!("remap_method impl={who}: answer depends on the storage of the query string (reused buffer)"), d);
                    }
                }
            }
        }
    }
}
