//! C20 — mapper and cache are shareable across threads and answer as if
//! queried alone. Oracles: run-time auto-trait probes; single-threaded answers
//! recorded first (the sequential model of an immutable structure is "same
//! answer always"); TSan / Miri decide races from happens-before.

use crate::api::*;
use crate::common::*;
use crate::cur;
use crate::props::c02::{gen_input, load_corpus};
use crate::report::{Ctx, Reporter, Tier};
use crate::universe::from_records;
use pgvcore::rng::Rng;
use pgvcore::util::{AlignedBuf, Fp, Json};
use std::sync::atomic::{AtomicU64, Ordering};
use std::sync::{Arc, Barrier};

/// Lets the driver share a handle across threads even if a change removed
/// its auto traits, so that the race detectors observe the actual race
/// instead of the compiler refusing to build the experiment. The probes
/// report the missing auto trait separately.
struct ForceShare<T>(T);
unsafe impl<T> Sync for ForceShare<T> {}
unsafe impl<T> Send for ForceShare<T> {}

#[derive(Clone, Debug)]
enum Q {
    Class(String),
    Method(String, String),
    Line(String, String, usize, Option<String>),
    Params(String, String, String),
    Text(String),
    Sig(String),
}

fn answer<'a, R: Remap<'a>>(r: &'a R, q: &'a Q) -> String {
    let mut out = vec![];
    match q {
        Q::Class(c) => format!("{:?}", r.class(c)),
        Q::Method(c, m) => format!("{:?}", r.method(c, m)),
        Q::Line(c, m, l, f) => {
            r.frames(c, m, *l, f.as_deref(), None, &mut out);
            format!("{out:?}")
        }
        Q::Params(c, m, p) => {
            r.frames(c, m, 0, None, Some(p), &mut out);
            format!("{out:?}")
        }
        Q::Text(t) => format!("{:?}", r.text(t)),
        Q::Sig(s) => format!("{:?}", r.sig(s)),
    }
}

pub fn run(ctx: &Ctx, rep: &mut Reporter) -> Json {
    let mut extra = Json::obj();
    // ---- probes
    let table = cur::probe_table();
    let mut tj = vec![];
    for (name, send, sync) in &table {
        rep.count("evaluations", 1);
        rep.count("probes", 1);
        tj.push(Json::s(format!("{name}: Send={send} Sync={sync}")));
        let control = name.starts_with("control");
        if control {
            if *send && *sync {
                eprintln!("HARNESS-ERROR: auto-trait probe cannot tell {name} from a Send+Sync type");
                std::process::exit(2);
            }
        } else if !*send || !*sync {
            let mut d = Json::obj();
            d.set("type", Json::s(*name));
            d.set("send", Json::Bool(*send));
            d.set("sync", Json::Bool(*sync));
            let which = match (*send, *sync) {
                (false, false) => "Send nor Sync",
                (false, true) => "Send",
                _ => "Sync",
            };
            rep.violation(u64::MAX - 5, "auto-trait-probe", &format!("{name} is not {which}"), d);
        }
    }
    extra.set("probe_table", Json::Arr(tj));
    // ---- concurrent queries against one shared handle
    let mut sigs = std::collections::HashSet::new();
    let mut overlaps_total = 0u64;
    for case_idx in ctx.case_range() {
        let mut rng = ctx_rng(ctx, case_idx);
        let (kind, text) = if ctx.tier == Tier::Thorough && case_idx == 0 && ctx.variant == "native" && ctx.shard < 2 {
            ("corpus:mapping-r8.txt".to_string(), load_corpus(6))
        } else if case_idx == 1 && ctx.variant == "native" {
            // a large mapping: lazily built internal state takes long enough to build that
            // a second thread arrives while the first is still building it
            let d = load_corpus(5 + (ctx.shard as usize % 2));
            let w = crate::props::c02::corpus_window(&d, &mut rng, 12_000);
            rep.count("large_mappings", 1);
            ("corpus-window-large".to_string(), w)
        } else if case_idx % 8 == 5 {
            // class and method names that run into each other when concatenated
            let n = *rng.pick(&[8usize, 64, 70, 200, 2000]);
            ("ast-concat-collisions".to_string(), pgvcore::ast::concat_collision_ast(n).print_lf())
        } else if case_idx % 8 == 3 {
            // two large methods with inline chains at many positions of their entry lists
            let n = *rng.pick(&[16usize, 33, 64]);
            ("ast-ranged-groups".to_string(), pgvcore::ast::ranged_group_ast(&mut rng, n).print_lf())
        } else {
            gen_input(ctx, case_idx * 4 + (case_idx % 3), &mut rng)
        };
        let big_ok = kind != "ast-huge-group"; // hundreds of frames per line there: a 24 000-line trace would expand to millions
        let r = guarded(|| one_mapping(&text, &mut rng, rep, case_idx, ctx, &mut sigs, big_ok, &kind));
        match r {
            Ok(o) => overlaps_total += o,
            Err(p) => panic_violation(rep, case_idx, "panic", &p, mapping_detail(&text[..text.len().min(3000)], &kind)),
        }
    }
    rep.count("same_key_pairs_with_overlapping_intervals", overlaps_total);
    rep.count("distinct_interleaving_signatures", sigs.len() as u64);
    extra
}

fn one_mapping(text: &[u8], rng: &mut Rng, rep: &mut Reporter, case_idx: u64, ctx: &Ctx, sigs: &mut std::collections::HashSet<u64>, big_ok: bool, kind: &str) -> u64 {
    // ---- the mapping itself, shared cold (by reference and through clones)
    {
        let (nt, repeats, rounds) = if ctx.variant == "miri" { (3, 1, 1) } else { (*rng.pick(&[2usize, 4, 8, 16]), 4, 3) };
        let window = &text[..text.len().min(if ctx.slow() { 1200 } else { 400_000 })];
        for _ in 0..repeats {
            let (alone, got, ov) = cur::mapping_shared_answers(window, nt, rounds);
            rep.count("mapping_calls_overlapping_in_time", ov);
            for g in &got {
                rep.count("evaluations", 1);
                rep.count("concurrent_mapping_answers_compared", 1);
                if *g != alone {
                    let mut d = mapping_detail(&window[..window.len().min(3000)], "shared ProguardMapping");
                    d.set("threads", Json::i(nt as u64));
                    d.set("answer_alone", Json::s(alone.clone()));
                    d.set("answer_concurrent", Json::s(g.clone()));
                    rep.violation(case_idx, "concurrent-vs-sequential", "a shared ProguardMapping (or a clone of it) answered a file-level question differently under concurrent use than alone", d);
                    break;
                }
            }
        }
    }
    let (items, _) = cur::records(text, usize::MAX);
    let u = from_records(&items, false);
    drop(items);
    // query batch
    let mut batch: Vec<Q> = vec![];
    let want = if ctx.variant == "miri" { 6 } else if ctx.variant == "tsan" { 400 } else { 2000 };
    let classes: Vec<&crate::universe::ClassU> = u.classes.iter().collect();
    let mut guard = 0;
    while batch.len() < want && guard < want * 4 {
        guard += 1;
        if classes.is_empty() {
            batch.push(Q::Class("a".into()));
            continue;
        }
        let cu = *rng.pick(&classes);
        let c = cu.name.clone();
        let m = if !cu.methods.is_empty() && rng.chance(4, 5) { rng.pick(&cu.methods).clone() } else { "unknownMethod".to_string() };
        match rng.below(12) {
            0 => batch.push(Q::Class(if rng.chance(1, 4) { format!("{c}x") } else { c })),
            1 => batch.push(Q::Method(c, m)),
            2 | 3 => {
                let p = if !cu.args.is_empty() { rng.pick(&cu.args).clone() } else { String::new() };
                batch.push(Q::Params(c, m, p))
            }
            4 => batch.push(Q::Text(format!("{c}: boom\n    at {c}.{m}(SourceFile:{})\nCaused by: {c}\n", 1 + rng.below(60)))),
            5 => batch.push(Q::Sig(format!("(L{};I)V", c.replace('.', "/")))),
            _ => {
                let l = if !cu.lines.is_empty() && rng.chance(3, 4) { *rng.pick(&cu.lines) as usize } else { rng.below(70) };
                batch.push(Q::Line(c, m, l, if rng.chance(1, 2) { Some("Q.java".into()) } else { None }))
            }
        }
    }
    // Now and then one very large trace (tens of thousands of resolving frame lines) that
    // every thread remaps right after the barrier: whatever a call accumulates while it
    // runs (counters, budgets, scratch buffers) must be its own, not the handle's.
    let mut big_at = None;
    if big_ok && ctx.variant != "miri" && ctx.variant != "tsan" && case_idx % 8 == 1 && !classes.is_empty() {
        let mut t = String::with_capacity(2_000_000);
        t.push_str("java.lang.StackOverflowError: deep\n");
        let mut n = 0;
        'outer: loop {
            for cu in &classes {
                for m in cu.methods.iter().take(6) {
                    for l in cu.lines.iter().take(6) {
                        t.push_str(&format!("    at {}.{}(SourceFile:{})\n", cu.name, m, l));
                        n += 1;
                        if n >= 24_000 {
                            break 'outer;
                        }
                    }
                }
            }
            if n == 0 {
                break;
            }
        }
        if n > 0 {
            big_at = Some(batch.len());
            batch.push(Q::Text(t));
            rep.count("batches_with_a_trace_of_24000_frame_lines", 1);
        }
    }
    // frames on classes that this mapping may not contain but the next one (parsed at the same
    // address) may: whatever a process remembers about a file must not outlive the file
    for _ in 0..40 {
        let c = *rng.pick(pgvcore::ast::OBF_CLASSES);
        if !c.is_empty() {
            batch.push(Q::Line(c.to_string(), rng.pick(pgvcore::ast::OBF_METHODS).to_string(), 1 + rng.below(30), None));
        }
    }
    let mut collision_queries: Vec<usize> = vec![];
    if kind == "ast-concat-collisions" {
        for (c, m) in [("k.ab", "c"), ("k.a", "bc"), ("k.a.b", "cd"), ("k.a.bc", "d"), ("k$x", "y"), ("k", "$xy")] {
            collision_queries.push(batch.len());
            batch.push(Q::Method(c.to_string(), m.to_string()));
        }
    }
    // few keys, many threads: duplicate a handful of hot queries
    let hot: Vec<Q> = batch.iter().take(8).cloned().collect();
    for _ in 0..(batch.len() / 4) {
        batch.push(rng.pick(&hot).clone());
    }
    let bytes = cur::write_cache(text).expect("write to Vec");
    // the first shared cache of every mapping of this process lives at the same address
    let buf_region: &[u8] = ARENA.with(|a| a.load(&bytes));
    struct Region<'r>(&'r [u8]);
    impl Region<'_> {
        fn as_slice(&self) -> &[u8] {
            self.0
        }
    }
    let buf = Region(buf_region);
    // sequential answers first, from SEPARATE instances: the shared handles below stay
    // cold (never queried) until the threads are released, so that lazily initialised
    // state inside a handle is first touched concurrently
    let (exp_m, exp_c): (Vec<String>, Vec<String>) = {
        let ref_mapper = cur::mapper(text, true);
        let Ok(ref_cache) = cur::parse_cache(buf.as_slice()) else { return 0 };
        (batch.iter().map(|q| answer(&ref_mapper, q)).collect(), batch.iter().map(|q| answer(&ref_cache, q)).collect())
    };
    // A second mapping with the same obfuscated names but different originals: the same
    // worker threads query both, so per-thread or per-process state keyed too coarsely
    // (e.g. by an id that repeats across handles) shows as one handle's answers leaking
    // into the other's.
    let text_b: Vec<u8> = {
        let t = String::from_utf8_lossy(text).replace("com.example", "org.sample").replace("java.lang", "jv.lng").replace("kotlin.", "kt.");
        t.into_bytes()
    };
    let has_b = text_b != text && std::str::from_utf8(text).is_ok();
    let bytes_b = cur::write_cache(&text_b).expect("write to Vec");
    let buf_b = AlignedBuf::from_bytes(&bytes_b);
    let (exp_mb, exp_cb): (Vec<String>, Vec<String>) = if has_b {
        let ref_mapper = cur::mapper(&text_b, true);
        let Ok(ref_cache) = cur::parse_cache(buf_b.as_slice()) else { return 0 };
        (batch.iter().map(|q| answer(&ref_mapper, q)).collect(), batch.iter().map(|q| answer(&ref_cache, q)).collect())
    } else {
        (vec![], vec![])
    };
    // the shared handles are built on two helper threads (each the first handle its
    // thread ever built), not on the thread that issues or checks the queries
    let built = std::thread::scope(|s| {
        let ha = s.spawn(|| (cur::mapper(text, true), cur::parse_cache(buf.as_slice()).ok()));
        let hb = s.spawn(|| (cur::mapper(&text_b, true), cur::parse_cache(buf_b.as_slice()).ok()));
        (ha.join().expect("builder thread"), hb.join().expect("builder thread"))
    });
    let ((mapper_a, cache_a), (mapper_b, cache_b)) = built;
    let (Some(cache_a), Some(cache_b)) = (cache_a, cache_b) else { return 0 };
    let mapper = ForceShare(mapper_a);
    let cache = ForceShare(cache_a);
    let mapper_b = ForceShare(mapper_b);
    let cache_b = ForceShare(cache_b);
    if has_b {
        rep.count("mappings_with_a_second_handle_built_on_another_thread", 1);
    }
    let nthreads = if ctx.variant == "miri" { 3 } else { *rng.pick(&[2usize, 4, 8, 16]) };
    let clock = AtomicU64::new(0);
    let barrier = Arc::new(Barrier::new(nthreads));
    // per thread: a seeded permutation of an overlapping slice of the batch
    let plans: Vec<(Vec<usize>, u64)> = (0..nthreads)
        .map(|t| {
            let n = batch.len();
            let start = (t * n) / (nthreads * 2);
            let mut idx: Vec<usize> = (start..n).collect();
            let mut r = Rng::new(rng.next_u64());
            r.shuffle(&mut idx);
            idx.truncate((n * 3 / 4).max(1));
            // all threads open with by-params / by-line queries of the same few keys
            let mut first: Vec<usize> = big_at.into_iter().collect();
            first.extend((0..n).filter(|i| matches!(batch[*i], Q::Params(..))).take(3));
            first.extend(idx.iter().copied());
            let idx = first;
            (idx, r.next_u64())
        })
        .collect();
    // log: (query index, start ticket, end ticket, thread, which impl, answer ok)
    let logs: Vec<Vec<(usize, u64, u64, bool, bool)>> = std::thread::scope(|s| {
        let hs: Vec<_> = plans
            .iter()
            .enumerate()
            .map(|(_t, (idx, seed))| {
                let b = barrier.clone();
                let (mapper, cache, batch, exp_m, exp_c, clock) = (&mapper, &cache, &batch, &exp_m, &exp_c, &clock);
                let (mapper_b, cache_b, exp_mb, exp_cb) = (&mapper_b, &cache_b, &exp_mb, &exp_cb);
                let seed = *seed;
                s.spawn(move || {
                    let mut r = Rng::new(seed);
                    let mut log = Vec::with_capacity(idx.len());
                    b.wait();
                    for &i in idx {
                        let use_cache = r.chance(1, 2);
                        let second = has_b && r.chance(1, 3);
                        let st = clock.fetch_add(1, Ordering::SeqCst);
                        let a = match (use_cache, second) {
                            (true, false) => answer(&cache.0, &batch[i]),
                            (false, false) => answer(&mapper.0, &batch[i]),
                            (true, true) => answer(&cache_b.0, &batch[i]),
                            (false, true) => answer(&mapper_b.0, &batch[i]),
                        };
                        let en = clock.fetch_add(1, Ordering::SeqCst);
                        let ok = match (use_cache, second) {
                            (true, false) => a == exp_c[i],
                            (false, false) => a == exp_m[i],
                            (true, true) => a == exp_cb[i],
                            (false, true) => a == exp_mb[i],
                        };
                        // the second handle is logged under a disjoint key space
                        log.push((if second { i + batch.len() } else { i }, st, en, use_cache, ok));
                        match r.below(8) {
                            0 => std::thread::yield_now(),
                            1 => {
                                for _ in 0..r.below(200) {
                                    std::hint::spin_loop();
                                }
                            }
                            _ => {}
                        }
                    }
                    log
                })
            })
            .collect();
        hs.into_iter().map(|h| h.join().expect("query thread")).collect()
    });
    // ---- hammer: a handful of by-line queries with multi-frame answers (inline chains) on
    // different methods, asked tens of thousands of times by all threads without pauses —
    // "few keys, many threads" for whatever a handle remembers between lookups
    {
        let multi = |a: &str| a.matches("NFrame").count() >= 2;
        let mut hot: Vec<usize> = (0..batch.len()).filter(|i| matches!(batch[*i], Q::Line(..)) && multi(&exp_m[*i])).collect();
        hot.dedup_by_key(|i| format!("{:?}", batch[*i]));
        hot.truncate(4);
        let single: Vec<usize> = (0..batch.len()).filter(|i| matches!(batch[*i], Q::Line(..)) && !multi(&exp_m[*i]) && exp_m[*i].contains("NFrame")).take(3).collect();
        // method lookups too: a few that answer and a few that do not (ambiguous or unknown)
        let mut meth: Vec<usize> = collision_queries.clone();
        for want_some in [true, false, true, false, true, false] {
            if let Some(i) = (0..batch.len()).find(|i| matches!(batch[*i], Q::Method(..)) && exp_m[*i].starts_with("Some") == want_some && !meth.contains(i) && meth.iter().all(|j| format!("{:?}", batch[*j]) != format!("{:?}", batch[*i]))) {
                meth.push(i);
            }
        }
        if (!hot.is_empty() && hot.len() + single.len() >= 2) || meth.len() >= 2 {
            let keys: Vec<usize> = hot.iter().chain(single.iter()).chain(meth.iter()).copied().collect();
            let iters = if ctx.variant == "miri" { 6 } else if ctx.variant == "tsan" { 2_000 } else { 30_000 };
            let bad: Vec<(usize, bool)> = std::thread::scope(|s| {
                let hs: Vec<_> = (0..nthreads)
                    .map(|t| {
                        let (mapper, cache, batch, exp_m, exp_c, keys, barrier) = (&mapper, &cache, &batch, &exp_m, &exp_c, &keys, &barrier);
                        s.spawn(move || {
                            let mut r = Rng::new(0x9e37 + t as u64);
                            let mut bad = vec![];
                            barrier.wait();
                            for _ in 0..iters {
                                let i = keys[r.below(keys.len())];
                                let use_cache = r.chance(1, 2);
                                if let (Q::Line(c, m, l, f), true) = (&batch[i], r.chance(1, 3)) {
                                    // a caller that only looks at the innermost frame
                                    let _ = if use_cache { cache.0.frames_partial(c, m, *l, f.as_deref(), 1) } else { mapper.0.frames_partial(c, m, *l, f.as_deref(), 1) };
                                    continue;
                                }
                                let ok = if use_cache { answer(&cache.0, &batch[i]) == exp_c[i] } else { answer(&mapper.0, &batch[i]) == exp_m[i] };
                                if !ok && bad.len() < 3 {
                                    bad.push((i, use_cache));
                                }
                            }
                            bad
                        })
                    })
                    .collect();
                hs.into_iter().flat_map(|h| h.join().expect("hammer thread")).collect()
            });
            rep.count("evaluations", (iters * nthreads) as u64);
            rep.count("hammered_lookups_of_inline_chain_lines", (iters * nthreads) as u64);
            rep.count("mappings_hammered", 1);
            for (i, use_cache) in bad {
                let mut d = Json::obj();
                d.set("query", Json::s(format!("{:?}", batch[i]).chars().take(3000).collect::<String>()));
                d.set("implementation", Json::s(if use_cache { "cache" } else { "mapper" }));
                d.set("threads", Json::i(nthreads as u64));
                d.set("keys_hammered", Json::i(keys.len() as u64));
                d.set("sequential_answer_head", Json::s((if use_cache { &exp_c[i] } else { &exp_m[i] }).chars().take(3000).collect::<String>()));
                rep.violation(case_idx, "concurrent-vs-sequential", &format!("a query issued concurrently returned a different answer than when issued alone impl={}", if use_cache { "cache" } else { "mapper" }), d);
            }
        }
    }
    // compare and measure what was observed
    let mut by_key: std::collections::HashMap<(usize, bool), Vec<(u64, u64, usize)>> = Default::default();
    let mut order: Vec<(u64, usize)> = vec![];
    for (t, log) in logs.iter().enumerate() {
        for (i, st, en, use_cache, ok) in log {
            rep.count("evaluations", 1);
            rep.count("concurrent_queries_compared", 1);
            order.push((*st, t));
            by_key.entry((*i, *use_cache)).or_default().push((*st, *en, t));
            if !ok {
                let second = *i >= batch.len();
                let i = &(*i % batch.len());
                let mut d = Json::obj();
                d.set("handle", Json::s(if second { "second mapping (built on another thread)" } else { "first mapping" }));
                d.set("query", Json::s(format!("{:?}", batch[*i]).chars().take(3000).collect::<String>()));
                d.set("implementation", Json::s(if *use_cache { "cache" } else { "mapper" }));
                d.set("threads", Json::i(nthreads as u64));
                d.set("sequential_answer_head", Json::s(match (*use_cache, second) {
                    (true, false) => exp_c[*i].clone(),
                    (false, false) => exp_m[*i].clone(),
                    (true, true) => exp_cb[*i].clone(),
                    (false, true) => exp_mb[*i].clone(),
                }.chars().take(3000).collect::<String>()));
                rep.violation(case_idx, "concurrent-vs-sequential", &format!("a query issued concurrently returned a different answer than when issued alone impl={}", if *use_cache { "cache" } else { "mapper" }), d);
            }
        }
    }
    let mut overlaps = 0u64;
    for v in by_key.values() {
        for a in 0..v.len().min(24) {
            for b in (a + 1)..v.len().min(24) {
                if v[a].2 != v[b].2 && v[a].0 < v[b].1 && v[b].0 < v[a].1 {
                    overlaps += 1;
                }
            }
        }
    }
    order.sort();
    let mut f = Fp::new();
    for (_, t) in order.iter().take(64) {
        f = f.u64(*t as u64);
    }
    sigs.insert(f.get());
    rep.distinct(Fp::new().bytes(text).u64(f.get()).get());
    rep.count(&format!("runs_with_{nthreads}_threads"), 1);
    rep.count("mappings", 1);
    if rep.wants_sample() {
        let mut s = Json::obj();
        s.set("threads", Json::i(nthreads as u64));
        s.set("batch", Json::i(batch.len() as u64));
        s.set("example_queries", Json::Arr(batch.iter().take(4).map(|q| Json::s(format!("{q:?}"))).collect()));
        s.set("first_16_thread_ids_in_ticket_order", Json::s(format!("{:?}", order.iter().take(16).map(|(_, t)| *t).collect::<Vec<_>>())));
        s.set("same_key_overlapping_pairs", Json::i(overlaps));
        rep.sample(s);
    }
    overlaps
}
