//! C16 — valid JVM descriptors deobfuscate to the right Java types, invalid
//! ones to none. Oracles: model over the descriptor AST, independent
//! recogniser for arbitrary strings, differential mapper vs cache.

use crate::api::*;
use crate::common::*;
use crate::cur;
use crate::report::{Ctx, Reporter};
use pgvcore::ast::{is_representable, Gen};
use pgvcore::desc::*;
use pgvcore::model::Model;
use pgvcore::rng::Rng;
use pgvcore::traces::names_of;
use pgvcore::util::{AlignedBuf, Fp, Json};

fn arbitrary(rng: &mut Rng) -> String {
    const A: &[&str] = &["(", ")", "L", ";", "[", "I", "V", "J", "Z", "/", "é", "日", "a", "b", ":", ".", " ", "\u{1F600}", "La/b;", "[[", "Lé;", ")V", "(L", "()", "x"];
    let n = rng.below(9);
    (0..n).map(|_| *rng.pick(A)).collect()
}

pub fn run(ctx: &Ctx, rep: &mut Reporter) {
    for case_idx in ctx.case_range() {
        let mut rng = ctx_rng(ctx, case_idx);
        let mut cfg = crate::props::c01::cfg_for(case_idx);
        cfg.max_blocks = if ctx.slow() { 3 } else { 10 };
        cfg.max_items = 2;
        let ast = Gen::new(&mut rng, cfg).ast();
        if !is_representable(&ast) {
            continue;
        }
        let model = Model::new(&ast);
        let names = names_of(&ast);
        let text = ast.print(pgvcore::ast::Term::Lf, true, &mut rng);
        let r = guarded(|| check(&text, &model, &names.classes, &mut rng, rep, case_idx, ctx.slow()));
        if let Err(p) = r {
            panic_violation(rep, case_idx, "panic", &p, mapping_detail(&text, ""));
        }
    }
}

#[allow(clippy::too_many_arguments)]
fn check(text: &[u8], model: &Model<'_>, classes: &[String], rng: &mut Rng, rep: &mut Reporter, case_idx: u64, slow: bool) {
    let m = cur::mapper(text, false);
    let bytes = cur::write_cache(text).expect("write to Vec");
    let buf = AlignedBuf::from_bytes(&bytes);
    let Ok(cache) = cur::parse_cache(buf.as_slice()) else {
        rep.violation(case_idx, "cache-parse", "freshly written cache rejected", mapping_detail(text, ""));
        return;
    };
    let lookup = |c: &str| model.class(c).map(|s| s.to_string());
    let mut strings: Vec<String> = vec![];
    let n = if slow { 6 } else { 40 };
    let mut valid: Vec<Desc> = (0..n).map(|_| gen_desc(rng, classes)).collect();
    if case_idx % 64 == 0 && !slow {
        // bounded-exhaustive small descriptors with one mapped class of this file
        let mapped = classes.iter().find(|c| model.class(c).is_some() && !c.contains(['/', ';', '(', ')', '[']) && !c.is_empty()).cloned().unwrap_or_else(|| "zz.Unmapped".into());
        let ex = exhaustive_small(&mapped);
        rep.count("exhaustive_small_descriptors", ex.len() as u64);
        valid.extend(ex);
    }
    for d in &valid {
        strings.push(d.print());
    }
    // single-character edits of a few valid descriptors, arbitrary strings
    for d in valid.iter().filter(|d| d.print().len() < 200).take(if slow { 1 } else { 3 }) {
        strings.extend(single_edits(&d.print()));
    }
    for _ in 0..(if slow { 4 } else { 30 }) {
        strings.push(arbitrary(rng));
    }
    for s in &strings {
        let (cls, parsed) = recognise(s);
        let rm = m.sig(s);
        let rc = cache.sig(s);
        rep.count("evaluations", 1);
        rep.count("differential_comparisons", 1);
        if s.contains(&"[".repeat(255)) {
            rep.count("descriptors_with_ge255_array_dimensions", 1);
        }
        let mk = |who: &str, got: &Option<NSig>| {
            let mut d = mapping_detail(text, "");
            d.set("descriptor", Json::s(s.clone()));
            d.set("implementation", Json::s(who));
            d.set("actual", Json::s(format!("{got:?}")));
            d
        };
        if rm != rc {
            let mut d = mk("both", &rm);
            d.set("cache", Json::s(format!("{rc:?}")));
            rep.violation(case_idx, "differential", "deobfuscate_signature differs between mapper and cache", d);
        }
        match cls {
            DescClass::Valid => {
                let d = parsed.unwrap();
                let (ep, er, ef) = d.expected(&lookup);
                let exp = Some(NSig { params: ep, ret: er, formatted: ef });
                let mapped_obj = d.params.iter().any(|p| has_mapped(p, &lookup));
                rep.count("valid_descriptors", 1);
                if mapped_obj {
                    rep.count("valid_descriptors_with_mapped_object_parameter", 1);
                    rep.distinct(Fp::new().bytes(text).str(s).get());
                }
                for (who, got) in [("mapper", &rm), ("cache", &rc)] {
                    if *got != exp {
                        let mut dd = mk(who, got);
                        dd.set("expected", Json::s(format!("{exp:?}")));
                        let what = match got {
                            None => "no result for a valid descriptor",
                            Some(g) if g.params.len() != exp.as_ref().unwrap().params.len() => "wrong number of parameters",
                            Some(g) if g.params != exp.as_ref().unwrap().params => "a parameter type differs",
                            Some(g) if g.ret != exp.as_ref().unwrap().ret => "return type differs",
                            _ => "formatted signature differs",
                        };
                        rep.violation(case_idx, "descriptor-model", &format!("valid descriptor: {what} impl={who}"), dd);
                    }
                }
            }
            DescClass::NoParenList | DescClass::NoReturnType | DescClass::UnterminatedObject => {
                let name = match cls {
                    DescClass::NoParenList => "no_paren_list",
                    DescClass::NoReturnType => "no_return_type",
                    _ => "unterminated_object",
                };
                rep.count(&format!("invalid_{name}"), 1);
                rep.distinct(Fp::new().str(s).u64(9).get());
                for (who, got) in [("mapper", &rm), ("cache", &rc)] {
                    if got.is_some() {
                        rep.violation(case_idx, "descriptor-model", &format!("invalid string ({name}) yields a result impl={who}"), mk(who, got));
                    }
                }
            }
            DescClass::OtherInvalid => rep.count("invalid_other_agreement_only", 1),
        }
    }
    if rep.wants_sample() {
        let mut sj = Json::obj();
        sj.set("descriptors", Json::Arr(strings.iter().take(8).map(|s| Json::s(s.clone())).collect()));
        rep.sample(sj);
    }
}

fn has_mapped(t: &Ty, lookup: &dyn Fn(&str) -> Option<String>) -> bool {
    match t {
        Ty::Obj(n) => lookup(&n.replace('/', ".")).is_some(),
        Ty::Arr(_, b) => has_mapped(b, lookup),
        _ => false,
    }
}
