//! C09 — written cache files conform to the documented layout and ordering
//! invariants. Oracles: independent decoder D (format documentation) for the
//! structure, model M for the content, the library's own integrity self-test.
//! Structural invariant checked at the quiescent point "after write".

use crate::common::*;
use crate::cur;
use crate::props::c02::{corpus_window, load_corpus, CORPUS};
use crate::report::{text_json, Ctx, Reporter, Tier};
use pgvcore::ast::{is_representable, Gen, GenCfg, Term};
use pgvcore::decoder::*;
use pgvcore::model::{Entry, Model};
use pgvcore::util::{AlignedBuf, Fp, Json};

fn cfg_for(case: u64, slow: bool) -> GenCfg {
    let mut cfg = GenCfg::default();
    match case % 6 {
        0 => {
            cfg.min_blocks = 0;
            cfg.max_blocks = 2;
        }
        1 => {
            cfg.name_family = true;
            cfg.min_blocks = if slow { 5 } else { 100 };
            cfg.max_blocks = if slow { 12 } else { 400 };
            cfg.max_items = 3;
        }
        2 => {
            cfg.max_blocks = if slow { 3 } else { 20 };
            cfg.max_items = 2; // many classes without members
        }
        3 => {
            cfg.inline_pct = 45;
            cfg.max_blocks = if slow { 3 } else { 10 };
        }
        _ => {
            if slow {
                cfg.max_blocks = 3;
            }
        }
    }
    cfg
}

pub fn run(ctx: &Ctx, rep: &mut Reporter) {
    for case_idx in ctx.case_range() {
        let mut rng = ctx_rng(ctx, case_idx);
        if case_idx % 16 == 15 && !ctx.slow() {
            // corpus: structure + self-test only
            let whole = ctx.tier == Tier::Thorough && case_idx == 15;
            let i = if whole { ctx.shard as usize % CORPUS.len() } else { rng.below(CORPUS.len()) };
            let d = load_corpus(i);
            let text = if whole { d } else { corpus_window(&d, &mut rng, 300) };
            let r = guarded(|| check(&text, None, rep, case_idx, "corpus"));
            if let Err(p) = r {
                panic_violation(rep, case_idx, "panic", &p, Json::s(CORPUS[i]));
            }
            continue;
        }
        let ast = Gen::new(&mut rng, cfg_for(case_idx, ctx.slow())).ast();
        if !is_representable(&ast) {
            continue;
        }
        let ast = if rng.chance(1, 4) { ast.with_noise(&mut rng, 10) } else { ast };
        let model = Model::new(&ast);
        let text = ast.print(*rng.pick(&Term::ALL), rng.chance(3, 4), &mut rng);
        // History: every other file is written right after a write on the same thread that
        // failed (or was short) somewhere in the middle — a file's layout must not depend on
        // what the thread wrote before.
        if case_idx % 2 == 1 {
            use pgvcore::sinks::{FaultSink, Schedule};
            let at = *rng.pick(&[1usize, 2, 3, 4, 6, 9, 14]);
            let mut sink = FaultSink::new(if rng.chance(3, 4) { Schedule::FailAt(at) } else { Schedule::ZeroAt(at) });
            let r = guarded(|| cur::write_cache_to(if case_idx % 4 == 1 { OTHER_MAPPING } else { &text[..] }, &mut sink));
            if let Ok(Err(_)) = r {
                rep.count("files_written_after_a_failed_write_on_the_same_thread", 1);
            }
        }
        let r = guarded(|| check(&text, Some(&model), rep, case_idx, "ast"));
        if let Err(p) = r {
            panic_violation(rep, case_idx, "panic", &p, mapping_detail(&text, ""));
        }
    }
}

fn check(text: &[u8], model: Option<&Model<'_>>, rep: &mut Reporter, case_idx: u64, kind: &str) {
    let bytes = cur::write_cache(text).expect("write to Vec");
    let buf = AlignedBuf::from_bytes(&bytes);
    rep.count("files", 1);
    rep.count("evaluations", 1);
    let show = |d: &mut Json| {
        d.set("mapping", text_json(&text[..text.len().min(6000)]));
        d.set("cache_len", Json::i(bytes.len() as u64));
        d.set("kind", Json::s(kind));
    };
    let dec = match decode(buf.as_slice(), 1) {
        Ok(d) => d,
        Err(e) => {
            let mut d = Json::obj();
            show(&mut d);
            d.set("error", Json::s(format!("{e:?}")));
            rep.violation(case_idx, "decoder", "written file does not decode with the documented layout", d);
            return;
        }
    };
    let mut evals = [0u64; 8];
    let problems = check_invariants(&dec, &mut evals);
    for (i, n) in evals.iter().enumerate() {
        rep.count(
            ["inv_header", "inv_alignment_padding", "inv_class_order_strings", "inv_range_tiling", "inv_member_order", "inv_by_params_order", "inv_member_strings", "inv_string_section"][i],
            *n,
        );
        rep.count("evaluations", *n);
    }
    for p in &problems {
        let mut d = Json::obj();
        show(&mut d);
        d.set("problem", Json::s(p.clone()));
        // signature: the problem text with numbers and names removed
        let class: String = p.split(|c: char| c == '(' || c == ':').next().unwrap_or("").chars().filter(|c| !c.is_ascii_digit()).collect();
        let what = if p.contains("members_by_params_offset") {
            "by-params ranges do not tile the by-params section".to_string()
        } else if p.contains("members_offset") {
            "member ranges do not tile the members section".to_string()
        } else {
            class.trim().to_string()
        };
        rep.violation(case_idx, "layout-invariant", &format!("layout invariant violated: {what}"), d);
    }
    let l = &dec.layout;
    if l.hdr.num_classes >= 2 && l.hdr.num_by_params >= 1 {
        rep.count("files_with_ge2_classes_and_by_params", 1);
        rep.distinct(Fp::new().bytes(&bytes).get());
    }
    // strings with multi-byte length prefixes
    let mut off = 0usize;
    while off < dec.strings.len() {
        match pgvcore::util::leb128_read(&dec.strings[off..]) {
            Some((len, used)) => {
                if used > 1 {
                    rep.count("strings_with_multibyte_length_prefix", 1);
                }
                off += used + len as usize;
            }
            None => break,
        }
    }
    match (l.classes_off + l.hdr.num_classes as usize * CLASS_LEN) % 8 {
        0 => rep.count("files_padding0_after_classes", 1),
        _ => rep.count("files_padding4_after_classes", 1),
    }
    // the library's own integrity self-test accepts the file
    match cur::parse_cache(buf.as_slice()) {
        Ok(c) => {
            if let Err(p) = pgvcore::util::trap(|| cur::cache_selftest(&c)) {
                let mut d = Json::obj();
                show(&mut d);
                d.set("panic", Json::s(format!("{} {}", p.location(), p.msg)));
                rep.violation(case_idx, "self-test", "ProguardCache::test() rejects a freshly written file", d);
            }
            rep.count("selftest_runs", 1);
        }
        Err(e) => {
            let mut d = Json::obj();
            show(&mut d);
            d.set("error", Json::s(format!("{e:?}")));
            rep.violation(case_idx, "cache-parse", "freshly written cache rejected", d);
        }
    }
    // content against the model
    let Some(model) = model else { return };
    let s = |o: u32| read_string(dec.strings, o).ok();
    let opt = |o: u32| if o == ABSENT { None } else { s(o) };
    let mut names: Vec<&str> = model.blocks.keys().copied().collect();
    names.sort();
    let got_names: Vec<Option<&str>> = dec.classes.iter().map(|c| s(c.obf)).collect();
    rep.count("evaluations", 1);
    if got_names != names.iter().map(|n| Some(*n)).collect::<Vec<_>>() {
        let mut d = Json::obj();
        show(&mut d);
        d.set("expected_classes", Json::s(format!("{names:?}")));
        d.set("actual_classes", Json::s(format!("{got_names:?}")));
        rep.violation(case_idx, "content", "class set differs from the mapping's (last block per obfuscated name, sorted)", d);
        return;
    }
    for (c, name) in dec.classes.iter().zip(&names) {
        let b = &model.blocks[name];
        rep.count("evaluations", 1);
        if s(c.orig) != Some(b.orig) {
            let mut d = Json::obj();
            show(&mut d);
            d.set("class", Json::s(*name));
            rep.violation(case_idx, "content", "class original name differs", d);
        }
        // members: stable sort of the block's entries by obfuscated name
        let mut exp: Vec<&Entry<'_>> = b.entries.iter().collect();
        exp.sort_by(|x, y| x.m.obf.as_bytes().cmp(y.m.obf.as_bytes()));
        let lo = c.m_off as usize;
        let hi = lo.saturating_add(c.m_len as usize);
        let got = dec.members.get(lo..hi).unwrap_or(&[]);
        let mut bp: Vec<&Entry<'_>> = Model::params_entries(b);
        bp.sort_by(|x, y| (x.m.obf.as_bytes(), x.m.args.as_bytes()).cmp(&(y.m.obf.as_bytes(), y.m.args.as_bytes())));
        let lo = c.bp_off as usize;
        let hi = lo.saturating_add(c.bp_len as usize);
        let got_bp = dec.by_params.get(lo..hi).unwrap_or(&[]);
        for (section, exp, got) in [("members", &exp, got), ("by-params", &bp, got_bp)] {
            rep.count("evaluations", 1);
            let same = exp.len() == got.len()
                && exp.iter().zip(got.iter()).all(|(e, g)| {
                    let (st, en) = e.m.usable().unwrap_or((0, 0));
                    s(g.obf) == Some(e.m.obf.as_str())
                        && s(g.orig) == Some(e.m.orig.as_str())
                        && opt(g.orig_class) == e.m.orig_class.as_deref()
                        && opt(g.orig_file) == e.file
                        && opt(g.params).unwrap_or("") == e.m.args
                        && g.startline as u128 == st
                        && g.endline as u128 == en
                        && (e.m.usable().is_none() || e.m.ostart.map_or(true, |o| g.ostart as u128 == o))
                        && (e.m.usable().is_none() || e.m.ostart.is_none() || e.m.oend.map_or(g.oend == ABSENT, |o| g.oend as u128 == o))
                });
            if !same {
                let mut d = Json::obj();
                show(&mut d);
                d.set("class", Json::s(*name));
                d.set("section", Json::s(section));
                d.set("expected", Json::Arr(exp.iter().map(|e| Json::s(format!("{} file={:?}", e.m.print(), e.file))).collect()));
                d.set("actual", Json::Arr(got.iter().map(|g| Json::s(format!("{:?} obf={:?} orig={:?} params={:?} file={:?}", g, s(g.obf), s(g.orig), opt(g.params), opt(g.orig_file)))).collect()));
                let what = if exp.len() != got.len() { "entry count differs" } else { "an entry differs or is out of order" };
                rep.violation(case_idx, "content", &format!("{section} entries of a class differ from the mapping: {what}"), d);
            }
        }
    }
    if rep.wants_sample() && l.hdr.num_classes >= 2 {
        let mut sj = Json::obj();
        sj.set("mapping_head", text_json(&text[..text.len().min(500)]));
        sj.set("header", Json::s(format!("{:?}", l.hdr)));
        sj.set("section_offsets", Json::s(format!("classes@{} members@{} by_params@{} strings@{} len={}", l.classes_off, l.members_off, l.by_params_off, l.strings_off, bytes.len())));
        rep.sample(sj);
    }
}
