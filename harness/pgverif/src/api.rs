//! Neutral view of the library's public API, implemented once per linked
//! library version (`cur` = /repo working tree, `pin` = frozen 5.5.0).

use pgvcore::decoder::ErrKind;
use pgvcore::model::MFrame;
use pgvcore::traces::{TFrame, TThrowable, TTrace};

#[derive(Clone, Debug, PartialEq, Eq)]
pub struct NFrame<'a> {
    pub class: &'a str,
    pub method: &'a str,
    pub file: Option<&'a str>,
    pub line: usize,
    pub params: Option<&'a str>,
}

impl<'a> NFrame<'a> {
    pub fn eq_model(&self, m: &MFrame<'_>) -> bool {
        self.class == m.class && self.method == m.method && self.file == m.file && self.line as u128 == m.line && self.params == m.params
    }
    pub fn show(&self) -> String {
        format!("{}.{}({}:{}){}", self.class, self.method, self.file.unwrap_or("<none>"), self.line, match self.params {
            Some(p) => format!("[params={p}]"),
            None => String::new(),
        })
    }
}

pub fn show_mframe(m: &MFrame<'_>) -> String {
    format!("{}.{}({}:{}){}", m.class, m.method, m.file.unwrap_or("<none>"), m.line, match m.params {
        Some(p) => format!("[params={p}]"),
        None => String::new(),
    })
}

#[derive(Clone, Debug, PartialEq, Eq)]
pub struct NSig {
    pub params: Vec<String>,
    pub ret: String,
    pub formatted: String,
}

#[derive(Clone, Debug, PartialEq, Eq)]
pub enum NRec<'a> {
    Header { key: &'a str, value: Option<&'a str> },
    Class { original: &'a str, obfuscated: &'a str },
    Field { ty: &'a str, original: &'a str, obfuscated: &'a str },
    Method {
        ty: &'a str,
        original: &'a str,
        obfuscated: &'a str,
        arguments: &'a str,
        original_class: Option<&'a str>,
        line_mapping: Option<(usize, usize, Option<usize>, Option<usize>)>,
    },
}

/// Ok(record) or Err(offending line bytes as reported by the library).
pub type NItem<'a> = Result<NRec<'a>, &'a [u8]>;

pub fn strip_terms(mut b: &[u8]) -> &[u8] {
    while let Some((l, rest)) = b.split_last() {
        if *l == b'\n' || *l == b'\r' {
            b = rest;
        } else {
            break;
        }
    }
    b
}

#[derive(Clone, Debug, PartialEq, Eq, Default)]
pub struct NSummary {
    pub compiler: Option<String>,
    pub compiler_version: Option<String>,
    pub min_api: Option<u32>,
    pub class_count: usize,
    pub method_count: usize,
}

/// Cache parse error in neutral form: Ok(kind) for the documented kinds.
pub type NErr = Result<ErrKind, String>;

pub trait Remap<'a> {
    fn class(&'a self, c: &str) -> Option<&'a str>;
    fn method(&'a self, c: &str, m: &str) -> Option<(&'a str, &'a str)>;
    fn frames(
        &'a self,
        class: &'a str,
        method: &'a str,
        line: usize,
        file: Option<&'a str>,
        params: Option<&'a str>,
        out: &mut Vec<NFrame<'a>>,
    );
    /// Creates the frame iterator, pulls at most `k` items and drops it (a caller that only
    /// wants the innermost frame); returns how many items it got.
    fn frames_partial(&'a self, class: &'a str, method: &'a str, line: usize, file: Option<&'a str>, k: usize) -> usize;
    fn throwable(&'a self, class: &'a str, msg: Option<&'a str>) -> Option<(&'a str, Option<&'a str>)>;
    fn text(&self, input: &str) -> Result<String, String>;
    fn sig(&self, s: &str) -> Option<NSig>;
    fn typed(&'a self, t: &'a TTrace) -> TTrace;
}

pub fn ttrace_depth(t: &TTrace) -> usize {
    t.depth()
}

pub fn mk_tthrowable(class: &str, message: Option<&str>) -> TThrowable {
    TThrowable { class: class.to_string(), message: message.map(|s| s.to_string()) }
}

pub fn mk_tframe(class: &str, method: &str, file: Option<&str>, line: usize, params: Option<&str>) -> TFrame {
    TFrame { class: class.to_string(), method: method.to_string(), file: file.map(|s| s.to_string()), line: line as u64, params: params.map(|s| s.to_string()) }
}

/// Generates the adapter module for one linked library version.
#[macro_export]
macro_rules! adapter {
    ($modname:ident, $pg:ident) => {
        pub mod $modname {
            #![allow(dead_code)]
            use $crate::api::*;
            use pgvcore::decoder::ErrKind;
            use pgvcore::traces::TTrace;
            use $pg as pg;
            use std::io::Write;

            pub type Mapper<'s> = pg::ProguardMapper<'s>;
            pub type Cache<'d> = pg::ProguardCache<'d>;

            pub fn mapper(text: &[u8], with_params: bool) -> Mapper<'_> {
                pg::ProguardMapper::new_with_param_mapping(pg::ProguardMapping::new(text), with_params)
            }
            pub fn mapper_plain(text: &[u8]) -> Mapper<'_> {
                pg::ProguardMapper::new(pg::ProguardMapping::new(text))
            }
            /// The `From<&str>` / `From<(&str, bool)>` constructors.
            pub fn mapper_from_str(text: &str, with_params: Option<bool>) -> Mapper<'_> {
                match with_params {
                    None => pg::ProguardMapper::from(text),
                    Some(b) => pg::ProguardMapper::from((text, b)),
                }
            }

            pub fn write_cache_to<W: Write>(text: &[u8], w: &mut W) -> std::io::Result<()> {
                pg::ProguardCache::write(&pg::ProguardMapping::new(text), w)
            }
            pub fn write_cache(text: &[u8]) -> std::io::Result<Vec<u8>> {
                let mut v = Vec::new();
                write_cache_to(text, &mut v)?;
                Ok(v)
            }

            pub fn err_kind(k: pg::CacheErrorKind) -> NErr {
                Ok(match k {
                    pg::CacheErrorKind::WrongEndianness => ErrKind::WrongEndianness,
                    pg::CacheErrorKind::WrongFormat => ErrKind::WrongFormat,
                    pg::CacheErrorKind::WrongVersion => ErrKind::WrongVersion,
                    pg::CacheErrorKind::InvalidHeader => ErrKind::InvalidHeader,
                    pg::CacheErrorKind::InvalidClasses => ErrKind::InvalidClasses,
                    pg::CacheErrorKind::InvalidMembers => ErrKind::InvalidMembers,
                    pg::CacheErrorKind::UnexpectedStringBytes { expected, found } => {
                        ErrKind::UnexpectedStringBytes { expected, found }
                    }
                    other => return Err(format!("{other:?}")),
                })
            }

            pub fn parse_cache(buf: &[u8]) -> Result<Cache<'_>, NErr> {
                pg::ProguardCache::parse(buf).map_err(|e| err_kind(e.kind()))
            }

            pub fn cache_selftest(c: &Cache<'_>) {
                c.test()
            }

            fn conv_rec<'a>(r: pg::ProguardRecord<'a>) -> NRec<'a> {
                match r {
                    pg::ProguardRecord::Header { key, value } => NRec::Header { key, value },
                    pg::ProguardRecord::Class { original, obfuscated } => NRec::Class { original, obfuscated },
                    pg::ProguardRecord::Field { ty, original, obfuscated } => NRec::Field { ty, original, obfuscated },
                    pg::ProguardRecord::Method { ty, original, obfuscated, arguments, original_class, line_mapping } => {
                        NRec::Method {
                            ty,
                            original,
                            obfuscated,
                            arguments,
                            original_class,
                            line_mapping: line_mapping
                                .map(|l| (l.startline, l.endline, l.original_startline, l.original_endline)),
                        }
                    }
                }
            }

            /// All items the record iterator yields, at most `limit`.
            /// Returns (items, hit_limit).
            pub fn records(text: &[u8], limit: usize) -> (Vec<NItem<'_>>, bool) {
                let m = pg::ProguardMapping::new(text);
                let mut v = Vec::new();
                let mut it = m.iter();
                loop {
                    if v.len() >= limit {
                        return (v, it.next().is_some());
                    }
                    match it.next() {
                        None => return (v, false),
                        Some(Ok(r)) => v.push(Ok(conv_rec(r))),
                        Some(Err(e)) => {
                            // ParseError::line borrows from the error value; recover the
                            // slice of `text` it points at.
                            let l = e.line();
                            let off = (l.as_ptr() as usize).wrapping_sub(text.as_ptr() as usize);
                            if off <= text.len() && off + l.len() <= text.len() {
                                v.push(Err(&text[off..off + l.len()]))
                            } else {
                                v.push(Err(&text[0..0]))
                            }
                        }
                    }
                }
            }

            fn conv_item<'a>(text: &'a [u8], it: Result<pg::ProguardRecord<'a>, pg::ParseError<'a>>) -> NItem<'a> {
                match it {
                    Ok(r) => Ok(conv_rec(r)),
                    Err(e) => {
                        let l = e.line();
                        let off = (l.as_ptr() as usize).wrapping_sub(text.as_ptr() as usize);
                        if off <= text.len() && off + l.len() <= text.len() {
                            Err(&text[off..off + l.len()])
                        } else {
                            Err(&text[0..0])
                        }
                    }
                }
            }

            /// The same record stream obtained through other `Iterator` entry points:
            /// `nth(k)` on a fresh iterator, `skip(k)`, `step_by(k)`, `count()`, `last()`.
            pub fn records_nth(text: &[u8], k: usize) -> Option<NItem<'_>> {
                pg::ProguardMapping::new(text).iter().nth(k).map(|i| conv_item(text, i))
            }
            pub fn records_skip(text: &[u8], k: usize, limit: usize) -> Vec<NItem<'_>> {
                pg::ProguardMapping::new(text).iter().skip(k).take(limit).map(|i| conv_item(text, i)).collect()
            }
            pub fn records_step_by(text: &[u8], k: usize, limit: usize) -> Vec<NItem<'_>> {
                pg::ProguardMapping::new(text).iter().step_by(k).take(limit).map(|i| conv_item(text, i)).collect()
            }
            pub fn records_count_last(text: &[u8]) -> (usize, Option<NItem<'_>>) {
                let m = pg::ProguardMapping::new(text);
                (m.iter().count(), m.iter().last().map(|i| conv_item(text, i)))
            }
            /// clone of a partially consumed iterator continues like the original
            pub fn records_clone_midway(text: &[u8], k: usize, limit: usize) -> (Vec<NItem<'_>>, Vec<NItem<'_>>) {
                let mut it = pg::ProguardMapping::new(text).iter();
                for _ in 0..k {
                    if it.next().is_none() {
                        break;
                    }
                }
                let c = it.clone();
                (it.take(limit).map(|i| conv_item(text, i)).collect(), c.take(limit).map(|i| conv_item(text, i)).collect())
            }

            pub fn try_parse_line(line: &[u8]) -> Result<NRec<'_>, Vec<u8>> {
                pg::ProguardRecord::try_parse(line).map(conv_rec).map_err(|e| e.line().to_vec())
            }

            pub fn summary(text: &[u8]) -> NSummary {
                let m = pg::ProguardMapping::new(text);
                let s = m.summary();
                NSummary {
                    compiler: s.compiler().map(|x| x.to_string()),
                    compiler_version: s.compiler_version().map(|x| x.to_string()),
                    min_api: s.min_api(),
                    class_count: s.class_count(),
                    method_count: s.method_count(),
                }
            }
            pub fn has_line_info(text: &[u8]) -> bool {
                pg::ProguardMapping::new(text).has_line_info()
            }
            pub fn is_valid(text: &[u8]) -> bool {
                pg::ProguardMapping::new(text).is_valid()
            }
            pub fn uuid(text: &[u8]) -> String {
                pg::ProguardMapping::new(text).uuid().to_string()
            }
            /// UUID of a sub-mapping, optionally after the parent's UUID was computed, and of a clone.
            pub fn uuid_section(text: &[u8], start: usize, end: usize, warm_parent: bool) -> (String, String) {
                let m = pg::ProguardMapping::new(text);
                if warm_parent {
                    let _ = m.uuid();
                }
                let s = m.section(start..end);
                let c = s.clone();
                (s.uuid().to_string(), c.uuid().to_string())
            }
            /// UUID of a section of a section (ranges relative to the enclosing section), and the
            /// number of records the inner section's iterator yields.
            pub fn uuid_nested_section(text: &[u8], a: usize, b: usize, c: usize, d: usize) -> (String, usize) {
                let m = pg::ProguardMapping::new(text);
                let inner = m.section(a..b).section(c..d);
                (inner.uuid().to_string(), inner.iter().count())
            }
            /// Metadata answers asked twice and in a different order on one value.
            pub fn metadata_twice(text: &[u8]) -> ((bool, bool, NSummary), (bool, bool, NSummary)) {
                let m = pg::ProguardMapping::new(text);
                let conv = |s: pg::MappingSummary<'_>| NSummary {
                    compiler: s.compiler().map(|x| x.to_string()),
                    compiler_version: s.compiler_version().map(|x| x.to_string()),
                    min_api: s.min_api(),
                    class_count: s.class_count(),
                    method_count: s.method_count(),
                };
                let a = (m.has_line_info(), m.is_valid(), conv(m.summary()));
                let s2 = conv(m.summary());
                let b = (m.clone().has_line_info(), m.is_valid(), s2);
                (a, b)
            }

            /// One cold `ProguardMapping` (built on a helper thread) shared by `nthreads`
            /// threads — even threads by reference, odd threads through a clone — each asking
            /// every file-level question `rounds` times in a per-thread order. Returns the
            /// answer of a separate instance asked alone, all concurrent answers, and the
            /// number of pairs of calls from different threads that overlapped in time.
            pub fn mapping_shared_answers(text: &[u8], nthreads: usize, rounds: usize) -> (String, Vec<String>, u64) {
                use std::sync::atomic::{AtomicU64, Ordering};
                struct Share<T>(T);
                unsafe impl<T> Sync for Share<T> {}
                unsafe impl<T> Send for Share<T> {}
                fn ask(m: &pg::ProguardMapping<'_>, order: usize) -> String {
                    let (mut s, mut h, mut v, mut n, mut u) = (String::new(), None, None, None, String::new());
                    for k in 0..5 {
                        match (k + order) % 5 {
                            0 => {
                                let x = m.summary();
                                s = format!("{:?}/{:?}/{:?}/{}/{}", x.compiler(), x.compiler_version(), x.min_api(), x.class_count(), x.method_count());
                            }
                            1 => h = Some(m.has_line_info()),
                            2 => v = Some(m.is_valid()),
                            3 => n = Some(m.iter().fold((0u64, 0u64), |(c, e), i| if i.is_ok() { (c + 1, e) } else { (c, e + 1) })),
                            _ => u = m.uuid().to_string(),
                        }
                    }
                    format!("summary={s} has_line_info={h:?} is_valid={v:?} records={n:?} uuid={u}")
                }
                // sections of the shared mapping (cut at line starts): each thread also asks one of
                // them; a section answers like a mapping made of its own bytes
                let cuts: Vec<usize> = {
                    let mut v = vec![0usize];
                    v.extend(text.iter().enumerate().filter(|(_, b)| **b == b'\n').map(|(i, _)| i + 1).filter(|i| *i < text.len()));
                    v
                };
                let ranges: Vec<(usize, usize)> = (0..nthreads)
                    .map(|t| {
                        let a = cuts[(t * 7 + 1) % cuts.len()];
                        let b = if t % 3 == 0 { text.len() } else { cuts[(t * 13 + cuts.len() / 2) % cuts.len()].max(a) };
                        (a, b)
                    })
                    .collect();
                let section_alone: Vec<String> = ranges.iter().map(|(a, b)| ask(&pg::ProguardMapping::new(&text[*a..*b]), 0)).collect();
                let alone = ask(&pg::ProguardMapping::new(text), 0);
                let shared = std::thread::scope(|s| s.spawn(|| Share(pg::ProguardMapping::new(text))).join().expect("builder thread"));
                let clones: Vec<Share<pg::ProguardMapping<'_>>> = (0..nthreads).map(|_| Share(shared.0.clone())).collect();
                let clock = AtomicU64::new(0);
                let barrier = std::sync::Barrier::new(nthreads);
                let logs: Vec<Vec<(String, u64, u64)>> = std::thread::scope(|s| {
                    let hs: Vec<_> = clones
                        .into_iter()
                        .enumerate()
                        .map(|(t, c)| {
                            let (shared, clock, barrier, ranges, section_alone, alone) = (&shared, &clock, &barrier, &ranges, &section_alone, &alone);
                            s.spawn(move || {
                                let c = c;
                                let mut out = vec![];
                                barrier.wait();
                                for r in 0..rounds {
                                    let st = clock.fetch_add(1, Ordering::SeqCst);
                                    // odd rounds of the threads 1, 2 mod 4 ask their section first
                                    let sec_first = (t + r) % 4 >= 2;
                                    let (ra, rb) = ranges[t];
                                    let sec = if t % 2 == 0 { shared.0.section(ra..rb) } else { c.0.section(ra..rb) };
                                    let sa = if sec_first { Some(ask(&sec, t)) } else { None };
                                    let a = if t % 2 == 0 { ask(&shared.0, t + r) } else { ask(&c.0, t + r) };
                                    let sa = sa.unwrap_or_else(|| ask(&sec, t));
                                    let en = clock.fetch_add(1, Ordering::SeqCst);
                                    // a wrong section answer is reported in place of the whole-file answer
                                    let a = if sa != section_alone[t] && a == *alone { format!("section {ra}..{rb}: {sa} (alone: {})", section_alone[t]) } else { a };
                                    out.push((a, st, en));
                                }
                                out
                            })
                        })
                        .collect();
                    hs.into_iter().map(|h| h.join().expect("mapping thread")).collect()
                });
                let mut overlaps = 0u64;
                for a in 0..logs.len() {
                    for b in (a + 1)..logs.len() {
                        for x in &logs[a] {
                            for y in &logs[b] {
                                if x.1 < y.2 && y.1 < x.2 {
                                    overlaps += 1;
                                }
                            }
                        }
                    }
                }
                (alone, logs.into_iter().flatten().map(|x| x.0).collect(), overlaps)
            }

            fn mk_frame<'a>(
                class: &'a str,
                method: &'a str,
                line: usize,
                file: Option<&'a str>,
                params: Option<&'a str>,
            ) -> pg::StackFrame<'a> {
                match (params, file) {
                    (Some(p), _) => pg::StackFrame::with_parameters(class, method, p),
                    (None, Some(f)) => pg::StackFrame::with_file(class, method, line, f),
                    (None, None) => pg::StackFrame::new(class, method, line),
                }
            }

            fn conv_frame<'a>(f: &pg::StackFrame<'a>) -> NFrame<'a> {
                // accessor methods return borrows tied to `&self`; go through a
                // clone-free path by rebuilding from the Display-independent getters.
                // The getters' lifetimes are shortened, so transmute-free copying
                // is not possible; instead we rely on `StackFrame: Clone` and leak
                // nothing: the returned references point into mapping/query data
                // that lives for 'a (checked by the provenance monitor in C12).
                let class: &str = f.class();
                let method: &str = f.method();
                let file: Option<&str> = f.file();
                let params: Option<&str> = f.parameters();
                // SAFETY: StackFrame<'a> stores `&'a str` fields; the getters merely
                // reborrow them with the lifetime of `f`. Extending back to 'a is
                // sound because the pointed-to data is owned by 'a-lived storage.
                unsafe {
                    NFrame {
                        class: std::mem::transmute::<&str, &'a str>(class),
                        method: std::mem::transmute::<&str, &'a str>(method),
                        file: std::mem::transmute::<Option<&str>, Option<&'a str>>(file),
                        line: f.line(),
                        params: std::mem::transmute::<Option<&str>, Option<&'a str>>(params),
                    }
                }
            }

            fn build_typed<'a>(t: &'a TTrace) -> pg::StackTrace<'a> {
                let exc = t.exception.as_ref().map(|e| match &e.message {
                    Some(m) => pg::Throwable::with_message(&e.class, m),
                    None => pg::Throwable::new(&e.class),
                });
                let frames: Vec<pg::StackFrame<'a>> = t
                    .frames
                    .iter()
                    .map(|f| mk_frame(&f.class, &f.method, f.line as usize, f.file.as_deref(), f.params.as_deref()))
                    .collect();
                match &t.cause {
                    Some(c) => pg::StackTrace::with_cause(exc, frames, build_typed(c)),
                    None => pg::StackTrace::new(exc, frames),
                }
            }

            pub fn conv_typed(t: &pg::StackTrace<'_>) -> TTrace {
                TTrace {
                    exception: t.exception().map(|e| mk_tthrowable(e.class(), e.message())),
                    frames: t.frames().iter().map(|f| mk_tframe(f.class(), f.method(), f.file(), f.line(), f.parameters())).collect(),
                    cause: t.cause().map(|c| Box::new(conv_typed(c))),
                }
            }

            pub fn typed_print(t: &TTrace) -> String {
                build_typed(t).to_string()
            }
            pub fn typed_parse(s: &[u8]) -> Option<TTrace> {
                pg::StackTrace::try_parse(s).map(|t| conv_typed(&t))
            }
            pub fn frame_print(f: &pgvcore::traces::TFrame) -> String {
                mk_frame(&f.class, &f.method, f.line as usize, f.file.as_deref(), None).to_string()
            }
            pub fn frame_parse(s: &[u8]) -> Option<pgvcore::traces::TFrame> {
                pg::StackFrame::try_parse(s).map(|f| mk_tframe(f.class(), f.method(), f.file(), f.line(), f.parameters()))
            }
            pub fn throwable_print(t: &pgvcore::traces::TThrowable) -> String {
                match &t.message {
                    Some(m) => pg::Throwable::with_message(&t.class, m).to_string(),
                    None => pg::Throwable::new(&t.class).to_string(),
                }
            }
            pub fn throwable_parse(s: &[u8]) -> Option<pgvcore::traces::TThrowable> {
                pg::Throwable::try_parse(s).map(|t| mk_tthrowable(t.class(), t.message()))
            }

            // ---- run-time auto-trait probes (inherent method shadows the trait fallback)
            pub struct Probe<T: ?Sized>(pub std::marker::PhantomData<T>);
            pub trait ProbeFallback {
                fn is_send(&self) -> bool {
                    false
                }
                fn is_sync(&self) -> bool {
                    false
                }
            }
            impl<T: ?Sized> ProbeFallback for Probe<T> {}
            impl<T: ?Sized + Send> Probe<T> {
                pub fn is_send(&self) -> bool {
                    true
                }
            }
            impl<T: ?Sized + Sync> Probe<T> {
                pub fn is_sync(&self) -> bool {
                    true
                }
            }
            pub fn probe_of<T>(_: &T) -> Probe<T> {
                Probe(std::marker::PhantomData)
            }

            /// (type name, Send, Sync) for the public handle, iterator and result types,
            /// plus two controls that must be detected as !Send / !Sync.
            pub fn probe_table() -> Vec<(&'static str, bool, bool)> {
                let text: &'static [u8] = b"a.B -> a:\n    1:2:void f(int):3:4 -> b\n";
                let mapping = pg::ProguardMapping::new(text);
                let mapper = pg::ProguardMapper::new_with_param_mapping(mapping.clone(), true);
                let bytes = {
                    let mut v = Vec::new();
                    pg::ProguardCache::write(&mapping, &mut v).unwrap();
                    v
                };
                let ab: &'static pgvcore::util::AlignedBuf = Box::leak(Box::new(pgvcore::util::AlignedBuf::from_bytes(&bytes)));
                let cache: &'static pg::ProguardCache<'static> = Box::leak(Box::new(pg::ProguardCache::parse(ab.as_slice()).unwrap()));
                let mapper: &'static pg::ProguardMapper<'static> = Box::leak(Box::new(mapper));
                let frame = pg::StackFrame::new("a", "b", 1);
                let mi = mapper.remap_frame(&frame);
                let ci = cache.remap_frame(&frame);
                let ri = mapping.iter();
                let summary = mapping.summary();
                let rec = mapping.iter().next().unwrap();
                let trace = pg::StackTrace::try_parse(b"a: m\n    at a.b(F:1)\n").unwrap();
                let thr = pg::Throwable::new("a");
                let sig = mapper.deobfuscate_signature("(I)V").unwrap();
                let cerr = pg::ProguardCache::parse(&[]).err().unwrap();
                let cell = std::cell::Cell::new(0u8);
                let rc = std::rc::Rc::new(0u8);
                let mut t = Vec::new();
                macro_rules! p {
                    ($name:expr, $v:expr) => {
                        t.push(($name, probe_of($v).is_send(), probe_of($v).is_sync()));
                    };
                }
                p!("ProguardMapper", mapper);
                p!("ProguardCache", cache);
                p!("ProguardMapping", &mapping);
                p!("RemappedFrameIter (mapper)", &mi);
                p!("RemappedFrameIter (cache)", &ci);
                p!("ProguardRecordIter", &ri);
                p!("MappingSummary", &summary);
                p!("ProguardRecord / ParseError", &rec);
                p!("StackFrame", &frame);
                p!("StackTrace", &trace);
                p!("Throwable", &thr);
                p!("DeobfuscatedSignature", &sig);
                p!("CacheError", &cerr);
                p!("control: Cell<u8>", &cell);
                p!("control: Rc<u8>", &rc);
                t
            }

            macro_rules! impl_remap {
                ($ty:ty) => {
                    impl<'a> Remap<'a> for $ty {
                        fn class(&'a self, c: &str) -> Option<&'a str> {
                            self.remap_class(c)
                        }
                        fn method(&'a self, c: &str, m: &str) -> Option<(&'a str, &'a str)> {
                            self.remap_method(c, m)
                        }
                        fn frames(
                            &'a self,
                            class: &'a str,
                            method: &'a str,
                            line: usize,
                            file: Option<&'a str>,
                            params: Option<&'a str>,
                            out: &mut Vec<NFrame<'a>>,
                        ) {
                            out.clear();
                            let fr = mk_frame(class, method, line, file, params);
                            for f in self.remap_frame(&fr) {
                                out.push(conv_frame(&f));
                            }
                        }
                        fn frames_partial(&'a self, class: &'a str, method: &'a str, line: usize, file: Option<&'a str>, k: usize) -> usize {
                            let fr = mk_frame(class, method, line, file, None);
                            let mut it = self.remap_frame(&fr);
                            let mut n = 0;
                            while n < k && it.next().is_some() {
                                n += 1;
                            }
                            n
                        }
                        fn throwable(&'a self, class: &'a str, msg: Option<&'a str>) -> Option<(&'a str, Option<&'a str>)> {
                            let t = match msg {
                                Some(m) => pg::Throwable::with_message(class, m),
                                None => pg::Throwable::new(class),
                            };
                            self.remap_throwable(&t).map(|r| {
                                let c: &str = r.class();
                                let m: Option<&str> = r.message();
                                // SAFETY: see conv_frame.
                                unsafe {
                                    (
                                        std::mem::transmute::<&str, &'a str>(c),
                                        std::mem::transmute::<Option<&str>, Option<&'a str>>(m),
                                    )
                                }
                            })
                        }
                        fn text(&self, input: &str) -> Result<String, String> {
                            self.remap_stacktrace(input).map_err(|e| e.to_string())
                        }
                        fn sig(&self, s: &str) -> Option<NSig> {
                            self.deobfuscate_signature(s).map(|d| NSig {
                                params: d.parameters_types().map(|x| x.to_string()).collect(),
                                ret: d.return_type().to_string(),
                                formatted: d.format_signature(),
                            })
                        }
                        fn typed(&'a self, t: &'a TTrace) -> TTrace {
                            let built = build_typed(t);
                            let r = self.remap_stacktrace_typed(&built);
                            let out = conv_typed(&r);
                            out
                        }
                    }
                };
            }
            impl_remap!(pg::ProguardMapper<'a>);
            impl_remap!(pg::ProguardCache<'a>);
        }
    };
}
