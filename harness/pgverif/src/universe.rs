//! Query universe derived from a record stream (used for inputs that have no
//! AST: token-mutated files and the corpus). Only *planning* depends on it;
//! no expected value is ever derived from it.

use crate::api::{NItem, NRec};

#[derive(Clone, Debug, Default)]
pub struct ClassU {
    pub name: String,
    pub methods: Vec<String>,
    pub lines: Vec<u64>,
    pub args: Vec<String>,
}

#[derive(Clone, Debug, Default)]
pub struct Universe {
    pub classes: Vec<ClassU>,
    pub foreign_methods: Vec<String>,
    pub foreign_args: Vec<String>,
    pub extra_classes: Vec<String>,
    /// spellings that CONTAIN a class name of the file (module / loader qualifiers, descriptor
    /// and path spellings, inner-class suffixes) with the index of that class: asked with
    /// the class's own methods and lines, they must be answered like any unknown class
    pub qualified_classes: Vec<(String, usize)>,
    pub files: Vec<String>,
    pub base_lines: Vec<u64>,
    pub in_domain: bool,
    pub n_classes_with_params_entries: usize,
    pub n_records: usize,
}

const U32M: u64 = u32::MAX as u64;

fn push_unique(v: &mut Vec<String>, s: &str, cap: usize) {
    if v.len() < cap && !v.iter().any(|x| x == s) {
        v.push(s.to_string());
    }
}

pub fn from_records(items: &[NItem<'_>], full_lines: bool) -> Universe {
    let mut u = Universe { in_domain: true, ..Default::default() };
    let mut cur: Option<ClassU> = None;
    let big = |v: usize| v as u64 >= U32M;
    // original -> obfuscated class names: a parameter string may be SPELLED with the obfuscated
    // name of a class it mentions (which no by-params entry is keyed by)
    let renames: Vec<(&str, &str)> = items
        .iter()
        .filter_map(|i| match i {
            Ok(NRec::Class { original, obfuscated }) if original != obfuscated && !original.is_empty() => Some((*original, *obfuscated)),
            _ => None,
        })
        .take(32)
        .collect();
    for it in items {
        let Ok(r) = it else { continue };
        u.n_records += 1;
        match r {
            NRec::Class { original, obfuscated } => {
                if original.is_empty() || obfuscated.is_empty() {
                    u.in_domain = false;
                }
                if let Some(c) = cur.take() {
                    u.classes.push(c);
                }
                cur = Some(ClassU { name: obfuscated.to_string(), ..Default::default() });
            }
            NRec::Method { original, obfuscated, arguments, original_class, line_mapping, .. } => {
                if original.is_empty() || obfuscated.is_empty() || original_class.map_or(false, |c| c.is_empty()) {
                    u.in_domain = false;
                }
                if let Some((s, e, os, oe)) = line_mapping {
                    if big(*s) || big(*e) || os.map_or(false, big) || oe.map_or(false, big) {
                        u.in_domain = false;
                    }
                }
                if let Some(c) = cur.as_mut() {
                    push_unique(&mut c.methods, obfuscated, 64);
                    push_unique(&mut c.args, arguments, 16);
                    if !arguments.is_empty() {
                        for (o, b) in &renames {
                            if arguments.split(',').any(|t| t.trim_end_matches("[]") == *o) {
                                let spelled: Vec<String> = arguments.split(',').map(|t| if t.trim_end_matches("[]") == *o { t.replacen(o, b, 1) } else { t.to_string() }).collect();
                                push_unique(&mut c.args, &spelled.join(","), 24);
                                break;
                            }
                        }
                    }
                    if let Some((s, e, _, _)) = line_mapping {
                        let (s, e) = (*s as u64, *e as u64);
                        for v in [s.saturating_sub(1), s, s.saturating_add(1), e.saturating_sub(1), e, e.saturating_add(1)] {
                            if c.lines.len() < 400 && !c.lines.contains(&v) {
                                c.lines.push(v);
                            }
                        }
                        if e > s.saturating_add(1) {
                            let mid = s + (e - s) / 2;
                            if c.lines.len() < 400 && !c.lines.contains(&mid) {
                                c.lines.push(mid);
                            }
                        }
                    }
                }
                push_unique(&mut u.foreign_methods, obfuscated, 3);
                push_unique(&mut u.foreign_args, arguments, 4);
            }
            NRec::Header { key, value } => {
                if *key == "sourceFile" {
                    if let Some(v) = value {
                        if v.is_empty() {
                            u.in_domain = false;
                        }
                    }
                }
            }
            NRec::Field { .. } => {}
        }
    }
    if let Some(c) = cur.take() {
        u.classes.push(c);
    }
    u.n_classes_with_params_entries = u.classes.iter().filter(|c| !c.methods.is_empty()).count();
    u.foreign_methods.push("unknownMethod".into());
    u.foreign_args.push("no.such.Type".into());
    // near misses of the first few classes + unknown
    for c in u.classes.iter().take(5) {
        let n = &c.name;
        if n.chars().count() > 1 {
            let mut p = n.clone();
            p.pop();
            u.extra_classes.push(p);
        }
        u.extra_classes.push(format!("{n}a"));
        let flipped: String =
            n.chars().map(|ch| if ch.is_ascii_lowercase() { ch.to_ascii_uppercase() } else { ch.to_ascii_lowercase() }).collect();
        u.extra_classes.push(flipped);
    }
    for (i, c) in u.classes.iter().enumerate().take(4) {
        let n = &c.name;
        if n.is_empty() {
            continue;
        }
        for v in [
            format!("app//{n}"),
            format!("java.base/{n}"),
            format!("app/my.module@1.2/{n}"),
            format!("x/{n}"),
            n.replace('.', "/"),
            n.replace('.', "$"),
            n.replace('$', "."),
            format!("L{n};"),
            format!("{n}$1"),
            format!("{n}.Companion"),
            format!(" {n}"),
            format!("{n} "),
            format!("[{n}"),
        ] {
            if v != *n && !u.classes.iter().any(|k| k.name == v) {
                u.qualified_classes.push((v, i));
            }
        }
    }
    u.extra_classes.push("unknown.Klass".into());
    u.extra_classes.push(String::new());
    u.files = vec!["SourceFile".into()];
    u.base_lines = if full_lines { (0..=66).collect() } else { vec![0, 1, 2, 3, 5, 8, 13, 21, 34, 55, 66] };
    u.base_lines.extend_from_slice(&[U32M - 1, U32M, U32M + 1, u64::MAX]);
    // beyond 2^32 with small low halves (would fall into a range after truncation to 32 bits)
    u.base_lines.extend_from_slice(&[(1 << 32) + 1, (1 << 32) + 3, (1 << 32) + 5, (1 << 32) + 13, (1 << 32) + 40, (1 << 33) + 7]);
    for c in u.classes.iter_mut() {
        let extra: Vec<u64> = c.lines.iter().take(6).filter(|l| **l < U32M).map(|l| (1u64 << 32) + *l).collect();
        c.lines.extend(extra);
    }
    u
}
