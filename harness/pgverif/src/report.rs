//! Worker-side reporting: violations (JSON lines on stdout), measured
//! coverage counters, distinct-case fingerprints and samples.

use pgvcore::model::case;
use pgvcore::util::{DistinctSet, Json};
use std::collections::BTreeMap;
use std::io::Write;

#[derive(Clone, Copy, Debug, PartialEq, Eq)]
pub enum Tier {
    Quick,
    Thorough,
}

pub struct Ctx {
    pub prop: String,
    pub tier: Tier,
    pub seed: u64,
    pub shard: u64,
    pub nshards: u64,
    /// number of cases this shard should run (driver decides)
    pub cases: u64,
    pub only_case: Option<u64>,
    /// native / asan / tsan / miri / valgrind — informational, lets runners
    /// shrink inner loops under slow interpreters
    pub variant: String,
    pub fp_out: Option<String>,
    /// file that always holds the index of the case being run (crash attribution)
    pub progress: Option<String>,
    pub verbose: bool,
}

impl Ctx {
    pub fn slow(&self) -> bool {
        self.variant == "miri" || self.variant == "valgrind"
    }
    pub fn note_case(&self, case: u64) {
        if let Some(p) = &self.progress {
            let _ = std::fs::write(p, case.to_string());
        }
    }
    pub fn case_seed(&self, case: u64) -> u64 {
        pgvcore::rng::mix(&[self.seed, pgvcore::util::fnv1a(self.prop.as_bytes()), self.shard, self.nshards, case])
    }
    /// iterate the case indices of this shard (or the single replayed one)
    pub fn case_range(&self) -> Vec<u64> {
        match self.only_case {
            Some(c) => vec![c],
            None => (0..self.cases).collect(),
        }
    }
}

pub struct Reporter {
    pub prop: String,
    pub shard: u64,
    pub seed: u64,
    pub counters: BTreeMap<String, u64>,
    pub distinct: DistinctSet,
    pub samples: Vec<Json>,
    pub max_samples: usize,
    pub violations: u64,
    per_sig: BTreeMap<String, u64>,
    pub case_hits: [u64; case::N],
    pub verbose: bool,
}

impl Reporter {
    pub fn new(ctx: &Ctx) -> Reporter {
        Reporter {
            prop: ctx.prop.clone(),
            shard: ctx.shard,
            seed: ctx.seed,
            counters: BTreeMap::new(),
            distinct: DistinctSet::new(4_000_000),
            samples: vec![],
            max_samples: 3,
            violations: 0,
            per_sig: BTreeMap::new(),
            case_hits: [0; case::N],
            verbose: ctx.verbose,
        }
    }

    #[inline]
    pub fn count(&mut self, name: &str, n: u64) {
        if let Some(c) = self.counters.get_mut(name) {
            *c += n;
        } else {
            self.counters.insert(name.to_string(), n);
        }
    }

    #[inline]
    pub fn cases(&mut self, bits: u32) {
        let mut b = bits;
        while b != 0 {
            let i = b.trailing_zeros() as usize;
            self.case_hits[i] += 1;
            b &= b - 1;
        }
    }

    #[inline]
    pub fn distinct(&mut self, fp: u64) {
        self.distinct.insert(fp);
    }

    pub fn sample(&mut self, j: Json) {
        if self.samples.len() < self.max_samples {
            self.samples.push(j);
        }
    }

    pub fn wants_sample(&self) -> bool {
        self.samples.len() < self.max_samples
    }

    /// Report a violation. `signature` identifies the *kind* of failure
    /// (monitor + discriminating structural facts) and is what the
    /// known-findings file is keyed on.
    pub fn violation(&mut self, case: u64, monitor: &str, signature: &str, detail: Json) {
        self.violations += 1;
        let n = self.per_sig.entry(signature.to_string()).or_insert(0);
        *n += 1;
        if *n > 3 {
            return;
        }
        let mut j = Json::obj();
        j.set("type", Json::s("violation"));
        j.set("property", Json::s(self.prop.clone()));
        j.set("monitor", Json::s(monitor));
        j.set("signature", Json::s(signature));
        j.set("shard", Json::i(self.shard));
        j.set("seed", Json::i(self.seed));
        j.set("case", Json::i(case));
        j.set("detail", detail);
        let out = std::io::stdout();
        let mut l = out.lock();
        let _ = writeln!(l, "{}", j.render());
    }

    pub fn finish(self, ctx: &Ctx, extra: Json) {
        let mut j = Json::obj();
        j.set("type", Json::s("coverage"));
        j.set("property", Json::s(self.prop.clone()));
        j.set("shard", Json::i(self.shard));
        j.set("variant", Json::s(ctx.variant.clone()));
        j.set("violations", Json::i(self.violations));
        let mut sigs = Json::obj();
        for (k, v) in &self.per_sig {
            sigs.set(k, Json::i(*v));
        }
        j.set("violation_signatures", sigs);
        let mut c = Json::obj();
        for (k, v) in &self.counters {
            c.set(k, Json::i(*v));
        }
        j.set("counters", c);
        let mut ch = Json::obj();
        for (i, n) in self.case_hits.iter().enumerate() {
            if *n > 0 {
                ch.set(case::NAMES[i], Json::i(*n));
            }
        }
        j.set("semantic_cases", ch);
        j.set("distinct", Json::i(self.distinct.len() as u64));
        j.set("distinct_saturated", Json::Bool(self.distinct.saturated));
        // Under Miri with -Zmiri-many-seeds several interpreted runs share one stdout: only
        // writes of at most PIPE_BUF (4096) bytes are atomic there, so the record is kept short
        // (no samples, no bulky extras) — a longer line could interleave with another seed's.
        let short = ctx.variant == "miri";
        j.set("samples", Json::Arr(if short { vec![] } else { self.samples.clone() }));
        let extra = if short && extra.render().len() > 1200 { Json::obj() } else { extra };
        j.set("extra", extra);
        if let Some(path) = &ctx.fp_out {
            // fingerprints for the exact cross-shard union
            let mut v: Vec<u64> = self.distinct_iter();
            v.sort_unstable();
            let mut bytes = Vec::with_capacity(v.len() * 8);
            for x in v {
                bytes.extend_from_slice(&x.to_le_bytes());
            }
            let _ = std::fs::write(path, bytes);
        }
        println!("{}", j.render());
    }

    fn distinct_iter(&self) -> Vec<u64> {
        self.distinct.iter()
    }
}

pub fn text_json(b: &[u8]) -> Json {
    Json::Str(match std::str::from_utf8(b) {
        Ok(s) => s.to_string(),
        Err(_) => format!("hex:{}", pgvcore::util::hex(b)),
    })
}
