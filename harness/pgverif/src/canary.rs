//! Deliberate defects that each instrumentation must detect. A sanitizer
//! stage whose canary does not fire is inconclusive, not clean.

use std::hint::black_box;

pub fn run(kind: &str) -> i32 {
    match kind {
        "overflow" => {
            let r = pgvcore::util::trap(|| {
                let a: u32 = black_box(u32::MAX);
                let b: u32 = black_box(1);
                a + b
            });
            match r {
                Err(p) if p.msg.contains("overflow") => {
                    println!("canary-fired overflow at {}", p.location());
                    0
                }
                _ => {
                    println!("canary-silent: overflow checks are off");
                    3
                }
            }
        }
        "trap" => {
            // the panic trap (the only instrumentation of a build without overflow checks):
            // an out-of-range index inside a trapped closure must come back as a panic record
            let r = pgvcore::util::trap(|| {
                let v = vec![1u8; 4];
                v[black_box(9)]
            });
            let wraps = black_box(u32::MAX).wrapping_add(black_box(1)) == 0 && !cfg!(debug_assertions);
            match r {
                Err(p) if p.msg.contains("index out of bounds") && wraps => {
                    println!("canary-fired trap at {} (debug assertions off)", p.location());
                    0
                }
                _ => {
                    println!("canary-silent: panic trap did not record the panic, or debug assertions are on");
                    3
                }
            }
        }
        "oob" => {
            let v = vec![1u8; 16];
            let p = v.as_ptr();
            let x = unsafe { std::ptr::read_volatile(p.add(black_box(24))) };
            println!("read {x}");
            0
        }
        "uninit" => {
            let mut v: Vec<u8> = Vec::with_capacity(64);
            #[allow(clippy::uninit_vec)]
            unsafe {
                v.set_len(64)
            };
            if black_box(v[black_box(5)]) == 7 {
                println!("seven");
            }
            0
        }
        "race" => {
            struct Shared(std::cell::UnsafeCell<u64>);
            unsafe impl Sync for Shared {}
            static S: Shared = Shared(std::cell::UnsafeCell::new(0));
            let hs: Vec<_> = (0..2)
                .map(|_| {
                    std::thread::spawn(|| {
                        for _ in 0..1000 {
                            unsafe { *S.0.get() += 1 };
                        }
                    })
                })
                .collect();
            for h in hs {
                let _ = h.join();
            }
            println!("{}", unsafe { *S.0.get() });
            0
        }
        _ => 2,
    }
}
