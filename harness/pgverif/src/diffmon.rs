//! Differential monitor: two implementations of the neutral `Remap` API must
//! answer every query of a universe identically.

use crate::api::*;
use crate::common::*;
use crate::report::Reporter;
use crate::universe::Universe;
use pgvcore::desc::gen_desc;
use pgvcore::rng::Rng;
use pgvcore::traces::{join_lines, Names, TTrace, TextGen, TextTerm, TraceGen};
use pgvcore::util::{Fp, Json};

pub struct DiffOpts<'x> {
    pub la: &'x str,
    pub lb: &'x str,
    /// compare by-params answers too (false when A has no param index)
    pub by_params: bool,
    pub typed: bool,
    pub signature_prefix: &'x str,
}

/// Pre-generated trace/descriptor workload for one file (must outlive the
/// implementations' borrow).
pub struct Extras {
    pub texts: Vec<String>,
    pub typed: Vec<TTrace>,
    pub sigs: Vec<String>,
}

pub fn names_from_universe(u: &Universe) -> Names {
    let mut n = Names::default();
    for c in u.classes.iter().take(40) {
        n.classes.push(c.name.clone());
        for m in c.methods.iter().take(4) {
            if !n.methods.contains(m) {
                n.methods.push(m.clone());
            }
        }
        for l in c.lines.iter().take(6) {
            n.lines.push(*l);
        }
        for a in c.args.iter().take(3) {
            if !n.args.contains(a) {
                n.args.push(a.clone());
            }
        }
    }
    for a in u.foreign_args.iter().take(3) {
        if !n.args.contains(a) {
            n.args.push(a.clone());
        }
    }
    n.classes.extend(u.extra_classes.iter().cloned());
    // coherent (class, method, line) triples for the trace generators: real ones, and the
    // same with a spelling that merely contains the class name
    for c in u.classes.iter().take(20) {
        for m in c.methods.iter().take(2) {
            for l in c.lines.iter().take(2) {
                n.hot.push((c.name.clone(), m.clone(), *l));
            }
        }
    }
    for (v, ci) in u.qualified_classes.iter().take(10) {
        let c = &u.classes[*ci];
        if let (Some(m), Some(l)) = (c.methods.first(), c.lines.first()) {
            n.hot.push((v.clone(), m.clone(), *l));
        }
    }
    n.methods.extend(u.foreign_methods.iter().cloned());
    n.lines.extend(u.base_lines.iter().copied());
    if n.classes.is_empty() {
        n.classes.push("a".into());
    }
    if n.methods.is_empty() {
        n.methods.push("a".into());
    }
    n.files = u.files.clone();
    n
}

pub fn make_extras(names: &Names, rng: &mut Rng, n_text: usize, n_typed: usize, n_sig: usize) -> Extras {
    let tg = TextGen { tg: TraceGen { names } };
    let mut texts = vec![];
    for _ in 0..n_text {
        let lines = tg.lines(rng);
        let term = if rng.chance(1, 3) { TextTerm::CrLf } else { TextTerm::Lf };
        texts.push(join_lines(&lines, term, rng.chance(2, 3)));
    }
    let g = TraceGen { names };
    let typed = (0..n_typed)
        .map(|i| {
            let canonical = rng.chance(1, 2);
            let mut t = g.trace_top(rng, canonical);
            // every other trace also carries `with_parameters` frames, placed next to a frame
            // of the same class and method that has other (or no) parameter information
            if i % 2 == 1 {
                decorate_with_params(&mut t, names, rng);
            }
            t
        })
        .collect();
    let sigs = (0..n_sig).map(|_| gen_desc(rng, &names.classes).print()).collect();
    Extras { texts, typed, sigs }
}

fn decorate_with_params(t: &mut TTrace, names: &Names, rng: &mut Rng) {
    let mut out = Vec::with_capacity(t.frames.len() * 2);
    for f in t.frames.drain(..) {
        let arg = |rng: &mut Rng| -> String {
            if names.args.is_empty() || rng.chance(1, 6) {
                rng.pick(&["", "int", "java.lang.String", "no.such.Type"]).to_string()
            } else {
                rng.pick(&names.args).clone()
            }
        };
        match rng.below(5) {
            0 => {
                let mut p = f.clone();
                p.params = Some(arg(rng));
                out.push(f);
                out.push(p);
            }
            1 => {
                let mut p = f.clone();
                p.params = Some(arg(rng));
                out.push(p);
                out.push(f);
            }
            2 => {
                let (mut p, mut q) = (f.clone(), f.clone());
                p.params = Some(arg(rng));
                q.params = Some(arg(rng));
                out.push(p);
                out.push(q);
            }
            _ => out.push(f),
        }
    }
    t.frames = out;
    if let Some(c) = t.cause.as_mut() {
        decorate_with_params(c, names, rng);
    }
}

#[allow(clippy::too_many_arguments)]
pub fn diff_remap<'a, A: Remap<'a>, B: Remap<'a>>(
    a: &'a A,
    b: &'a B,
    u: &'a Universe,
    ex: &'a Extras,
    o: &DiffOpts<'_>,
    rep: &mut Reporter,
    case_idx: u64,
    base_fp: u64,
    ctx: &dyn Fn() -> Json,
) {
    let mut fa = vec![];
    let mut fb = vec![];
    let file0: &'a str = u.files[0].as_str();
    let mut viol = |rep: &mut Reporter, api: &str, q: Json, ra: Json, rb: Json, extra_sig: &str| {
        let mut d = ctx();
        d.set("api", Json::s(api));
        d.set("query", q);
        d.set(o.la, ra);
        d.set(o.lb, rb);
        let sig = format!("{}{} differs between {} and {}{}", o.signature_prefix, api, o.la, o.lb, extra_sig);
        rep.violation(case_idx, "differential", &sig, d);
    };
    // classes
    let all_classes = u.classes.iter().map(|c| c.name.as_str()).chain(u.extra_classes.iter().map(|s| s.as_str()));
    for c in all_classes {
        let (x, y) = (a.class(c), b.class(c));
        rep.count("evaluations", 1);
        rep.count("api_remap_class", 1);
        if x.is_some() {
            rep.distinct(Fp(base_fp).str("class").str(c).get());
        }
        if x != y {
            viol(rep, "remap_class", Json::s(c), Json::s(format!("{x:?}")), Json::s(format!("{y:?}")), "");
        }
        let (tx, ty) = (a.throwable(c, Some("msg")), b.throwable(c, Some("msg")));
        rep.count("evaluations", 1);
        rep.count("api_remap_throwable", 1);
        if tx != ty {
            viol(rep, "remap_throwable", Json::s(c), Json::s(format!("{tx:?}")), Json::s(format!("{ty:?}")), "");
        }
    }
    // per class: methods, frames
    for cu in &u.classes {
        let c: &'a str = cu.name.as_str();
        let methods = cu.methods.iter().map(|m| (m.as_str(), true)).chain(u.foreign_methods.iter().map(|m| (m.as_str(), false)));
        for (m, own) in methods {
            let (x, y) = (a.method(c, m), b.method(c, m));
            rep.count("evaluations", 1);
            rep.count("api_remap_method", 1);
            if x.is_some() {
                rep.distinct(Fp(base_fp).str("method").str(c).str(m).get());
            }
            if x != y {
                viol(rep, "remap_method", query_json(c, m, 0, None, None), Json::s(format!("{x:?}")), Json::s(format!("{y:?}")), "");
            }
            let lines: Box<dyn Iterator<Item = &u64>> =
                if own { Box::new(u.base_lines.iter().chain(cu.lines.iter())) } else { Box::new(u.base_lines.iter().take(3)) };
            for (i, l) in lines.enumerate() {
                let file = if i % 2 == 1 { Some(file0) } else { None };
                a.frames(c, m, *l as usize, file, None, &mut fa);
                b.frames(c, m, *l as usize, file, None, &mut fb);
                rep.count("evaluations", 1);
                rep.count("api_remap_frame_by_line", 1);
                if !fa.is_empty() {
                    rep.distinct(q_fp(base_fp, c, m, *l, file.is_some(), None));
                    rep.count("nonempty_by_line", 1);
                }
                if fa != fb {
                    viol(rep, "remap_frame(by line)", query_json(c, m, *l, file, None), show_frames(&fa), show_frames(&fb), "");
                }
            }
            if o.by_params {
                let args = cu.args.iter().map(|s| s.as_str()).chain(u.foreign_args.iter().map(|s| s.as_str()));
                for p in args {
                    a.frames(c, m, 0, None, Some(p), &mut fa);
                    b.frames(c, m, 0, None, Some(p), &mut fb);
                    rep.count("evaluations", 1);
                    rep.count("api_remap_frame_by_params", 1);
                    if !fa.is_empty() {
                        rep.distinct(q_fp(base_fp, c, m, 0, false, Some(p)));
                        rep.count("nonempty_by_params", 1);
                    }
                    if fa != fb {
                        let dir = if fa.len() > fb.len() { " (second has fewer frames)" } else if fa.len() < fb.len() { " (second has more frames)" } else { "" };
                        viol(rep, "remap_frame(by params)", query_json(c, m, 0, None, Some(p)), show_frames(&fa), show_frames(&fb), dir);
                    }
                }
            }
        }
    }
    // unknown / near-miss classes: a few frame queries
    for c in &u.extra_classes {
        for m in u.foreign_methods.iter().take(2) {
            for l in [0u64, 1, u64::MAX] {
                a.frames(c, m, l as usize, None, None, &mut fa);
                b.frames(c, m, l as usize, None, None, &mut fb);
                rep.count("evaluations", 1);
                rep.count("api_remap_frame_by_line", 1);
                if fa != fb {
                    viol(rep, "remap_frame(by line)", query_json(c, m, l, None, None), show_frames(&fa), show_frames(&fb), "");
                }
            }
        }
    }
    // spellings that contain a class name of the file, with that class's own methods and lines
    for (v, ci) in &u.qualified_classes {
        let cu = &u.classes[*ci];
        let (x, y) = (a.class(v), b.class(v));
        rep.count("evaluations", 1);
        if x != y {
            viol(rep, "remap_class", Json::s(v.clone()), Json::s(format!("{x:?}")), Json::s(format!("{y:?}")), "");
        }
        for m in cu.methods.iter().take(3) {
            let (x, y) = (a.method(v, m), b.method(v, m));
            rep.count("evaluations", 1);
            if x != y {
                viol(rep, "remap_method", query_json(v, m, 0, None, None), Json::s(format!("{x:?}")), Json::s(format!("{y:?}")), "");
            }
            for l in cu.lines.iter().take(4) {
                a.frames(v, m, *l as usize, Some(file0), None, &mut fa);
                b.frames(v, m, *l as usize, Some(file0), None, &mut fb);
                rep.count("evaluations", 1);
                rep.count("api_remap_frame_by_line", 1);
                rep.count("queries_with_a_spelling_that_contains_a_class_name", 1);
                if fa != fb {
                    viol(rep, "remap_frame(by line)", query_json(v, m, *l, Some(file0), None), show_frames(&fa), show_frames(&fb), "");
                }
            }
        }
    }
    // text traces
    for t in &ex.texts {
        let (x, y) = (a.text(t), b.text(t));
        rep.count("evaluations", 1);
        rep.count("api_remap_stacktrace_text", 1);
        if let Ok(s) = &x {
            if s != &pgvcore::traces::normalised(t) {
                rep.distinct(Fp(base_fp).str("text").str(t).get());
                rep.count("text_traces_rewritten", 1);
            }
        }
        if x != y {
            viol(rep, "remap_stacktrace", Json::s(t.clone()), Json::s(format!("{x:?}")), Json::s(format!("{y:?}")), "");
        }
    }
    if o.typed {
        for t in &ex.typed {
            fn has_params(t: &TTrace) -> bool {
                t.frames.iter().any(|f| f.params.is_some()) || t.cause.as_ref().map_or(false, |c| has_params(c))
            }
            if !o.by_params && has_params(t) {
                continue; // one side has no parameter index
            }
            let (x, y) = (a.typed(t), b.typed(t));
            rep.count("evaluations", 1);
            rep.count("api_remap_stacktrace_typed", 1);
            if has_params(t) {
                rep.count("typed_traces_with_parameter_frames", 1);
            }
            if x != *t {
                rep.distinct(Fp(base_fp).str("typed").str(&t.print()).get());
            }
            if x != y {
                let show = |t: &TTrace| if t.frames.iter().any(|f| f.params.is_some()) || t.cause.is_some() { format!("{t:?}") } else { t.print() };
                viol(rep, "remap_stacktrace_typed", Json::s(show(t)), Json::s(show(&x)), Json::s(show(&y)), "");
            }
        }
    }
    for s in &ex.sigs {
        let (x, y) = (a.sig(s), b.sig(s));
        rep.count("evaluations", 1);
        rep.count("api_deobfuscate_signature", 1);
        if x.is_some() {
            rep.distinct(Fp(base_fp).str("sig").str(s).get());
        }
        if x != y {
            viol(rep, "deobfuscate_signature", Json::s(s.clone()), Json::s(format!("{x:?}")), Json::s(format!("{y:?}")), "");
        }
    }
}
