#!/bin/bash
# dev helper: build and show only errors / harness warnings
cd /verif/harness
cargo build --release 2>&1 | awk '/^(warning|error)/{show=0} /^error/{show=1} /^warning: unused|^warning: unreachable|^warning: value assigned/{show=1} show{print}' | grep -v "^warning: .proguard" | head -${1:-60}
