"""Per-property configuration of the runtime-monitoring checks: stages
(build variant, case count, shards), minimum observed events, level and the
rule that defines 'distinct non-trivial' cases. Case counts are logical
steps; wall-clock only enters as a generous watchdog."""

def native(q, t, **kw):
    return {"quick": [dict(variant="native", cases=q, **kw)], "thorough": [dict(variant="native", cases=t, **kw)]}

DOMAIN = "mapping files are in the representable domain (non-empty names, every printed number < 2^32-1)"
ALIGN = "cache bytes are placed in an 8-byte aligned buffer (what malloc/mmap give); the reader aligns by address, the writer by file offset"

PROPS = {
    "C01": dict(
        level="exploration",
        stages=native(4000, 120000),
        rule="case = (generated mapping AST, printing variant, class, method, line, file?) checked against reference model M for mapper, mapper+param-index and cache; distinct = distinct (variant text hash, query) ; non-trivial = model answer is non-empty",
        min={"quick": {"range_offset_len_ge_2": 100, "synthetic_class_file": 100, "foreign_class_no_file": 100,
                       "source_file_mid_block": 100, "duplicate_class_override": 100, "inverted_range_skipped": 100,
                       "single_line_collapse": 100, "call_site": 100, "identity": 100, "no_range_line0": 100},
             "thorough": {"range_offset_len_ge_2": 1000, "synthetic_class_file": 1000}},
        assumptions=[DOMAIN, ALIGN, "noise lines come from a fixed catalogue that C05 independently shows to be parse errors"],
    ),
}
