"""Per-property configuration of the runtime-monitoring checks: stages
(build variant, case count, shards), minimum observed events, level and the
rule that defines 'distinct non-trivial' cases. Case counts are logical
steps; wall-clock only enters as a generous watchdog."""

def native(q, t, **kw):
    return {"quick": [dict(variant="native", cases=q, **kw)], "thorough": [dict(variant="native", cases=t, **kw)]}

DOMAIN = "mapping files are in the representable domain (non-empty names, every printed number < 2^32-1)"
ALIGN = "cache bytes are placed in an 8-byte aligned buffer (what malloc/mmap give); the reader aligns by address, the writer by file offset"

PROPS = {
    "C01": dict(
        level="exploration",
        stages=native(4000, 120000),
        rule="case = (generated mapping AST, printing variant, class, method, line, file?) checked against reference model M for mapper, mapper+param-index and cache; distinct = distinct (variant text hash, query) ; non-trivial = model answer is non-empty",
        min={"quick": {"range_offset_len_ge_2": 100, "synthetic_class_file": 100, "foreign_class_no_file": 100,
                       "source_file_mid_block": 100, "duplicate_class_override": 100, "inverted_range_skipped": 100,
                       "single_line_collapse": 100, "call_site": 100, "identity": 100, "no_range_line0": 100},
             "thorough": {"range_offset_len_ge_2": 1000, "synthetic_class_file": 1000}},
        assumptions=[DOMAIN, ALIGN, "noise lines come from a fixed catalogue that C05 independently shows to be parse errors"],
    ),
    "C02": dict(
        level="exploration",
        stages={"quick": [dict(variant="native", cases=6000)],
                "thorough": [dict(variant="native", cases=120000), dict(variant="asan", cases=6000), dict(variant="miri", cases=48, shards=16, timeout=3000)]},
        rule="case = (mapping file from AST generator / token mutator / corpus window or whole corpus file, query) with the mapper's answer compared to the cache's (write -> parse -> query) for remap_class, remap_method, remap_frame by line and by params, remap_throwable, text and typed stack traces, signatures; plus mapper with vs without param index; distinct = distinct (file hash, query); non-trivial = the mapper's answer is non-empty / differs from the input",
        min={"quick": {"nonempty_by_params": 1000, "files_with_ge2_classes_having_methods": 100, "nonempty_by_line": 10000, "text_traces_rewritten": 100},
             "thorough": {"nonempty_by_params": 10000}},
        assumptions=[DOMAIN + "; files outside the domain (empty class/method/file names, numbers >= 2^32-1) are counted and skipped", ALIGN],
    ),
    "C03": dict(
        level="exploration",
        stages=native(3000, 60000),
        rule="case = (generated mapping AST with inline groups / repeated entries / overloads, printing variant, class, method, parameter string) checked against M.frames_by_params for mapper+param-index and cache; distinct = distinct (variant text hash, query); non-trivial = model answer non-empty",
        min={"quick": {"params_from_non_first_class": 1000, "inline_filtered": 100, "dedup_hit": 100},
             "thorough": {"params_from_non_first_class": 10000}},
        assumptions=[DOMAIN, ALIGN],
    ),
    "C04": dict(
        level="exploration",
        stages=native(1200, 20000),
        rule="case = (mapping with 50..400 adversarially similar class names, probe string) for remap_class/remap_throwable and (class, method) for remap_method, each compared with model M, plus consistency of remap_method with every frame of remap_frame over 9 lines; distinct = distinct (file hash, probe) ; non-trivial = the model answers Some",
        min={"quick": {"lookups_some": 1000, "lookups_none": 1000, "method_lookups_ambiguous_none": 100, "consistency_checks": 1000, "files_with_duplicate_class_names": 10},
             "thorough": {}},
        assumptions=[DOMAIN, ALIGN],
    ),
    "C05": dict(
        level="exploration",
        stages=native(48000, 960000),
        rule="case = one mapping line: (a) printed from a record AST with every combination of optional parts and 4 terminators, (b) one of the documented malformed derivations of such a line, (c) every token string of length <= 5 (quick) / 6 (thorough) over the 12-token alphabet, (d) every non-blank corpus line, each through ProguardRecord::try_parse and ProguardMapping::iter; oracle = the AST or the reference line parser R; distinct = distinct line text; non-trivial = the line is well-formed or documented-malformed (lines R classifies 'neither' only get the totality check)",
        min={"quick": {"corpus_wellformed": 30000, "exhaustive_wellformed": 10000, "exhaustive_malformed": 10000, "malformed_bad_indentation": 1000,
                       "malformed_start_without_end": 1000, "malformed_missing_return_type": 1000, "malformed_missing_class_colon": 1000,
                       "malformed_unspaced_arrow": 1000, "malformed_missing_arrow": 1000, "malformed_catalogue": 35, "files_checked": 1000},
             "thorough": {}},
        exhaustive_note="all token strings of length <= 5 (quick: 271,453 lines) / <= 6 (thorough: 3,257,437 lines) over the 12-token alphabet are enumerated completely, partitioned over the shards; all 39,929 non-blank corpus lines",
        assumptions=["identifiers never start with a digit; lines R cannot classify (tokens outside the identifier alphabet, four spaces followed by a tab) only get the totality check",
                     "'carrying the offending line' is compared modulo trailing line terminators"],
    ),
    "C06": dict(
        level="exploration",
        stages=native(160000, 3200000),
        rule="case = byte string X (invariants: termination, <= 1 item per byte, no line terminator inside any yielded field) or pair (A, sep, B) for the concatenation law on complete item sequences; inputs: random bytes, token soups, invalid UTF-8, Latin-1 numerics, 30-digit runs, unterminated sourceFile headers, hostile ASTs, token-mutated files, corpus split points; all strings of length <= 6 (quick) / 7 (thorough) over a 9-symbol alphabet, all A of length <= 4 / 5 x 20 probe files B; distinct = distinct A+sep+B with both sides yielding items",
        min={"quick": {"law_applications": 100000, "inputs_with_error_and_record": 10000, "inputs_with_invalid_utf8": 1000, "exhaustive_strings": 500000, "corpus_split_points": 50},
             "thorough": {}},
        exhaustive_note="all strings of length <= 6 (597,871) / <= 7 (5,380,840) over {a,1,space,:,(,),-,>,LF} for the invariants; all A of length <= 4 (7,381) / <= 5 (66,430) x 20 probe files for the law",
        assumptions=["the law is checked under its literal reading (records and errors; an error is identified by its line without terminators); the weaker Ok-records-only reading is reported alongside"],
    ),
    "C07": dict(
        level="exploration",
        stages=native(16000, 320000),
        rule="case = (generated mapping, text trace) where every line's kind is known by construction (throwable, 'Caused by:' cause, frame with tab/space indent, opaque: '... n more', Native Method/Unknown Source, blank, throwable-looking text, arbitrary Unicode text that cannot be a frame or cause under any reading), LF/CRLF, with/without final newline, mapper and cache, compared with the line-by-line model; every 4th case: arbitrary Unicode text against an empty mapping and a mapping over a disjoint name universe (identity up to terminator normalisation); distinct = distinct (mapping, input) with >=1 rewritten and >=1 passed-through line, or identity inputs containing '(' ')' ':' and multi-byte characters",
        min={"quick": {"traces_with_rewritten_and_passed_lines": 5000, "lines_caused_by": 1000, "lines_opaque": 1000, "lines_frame": 1000, "lines_throwable": 1000,
                       "identity_inputs_with_delimiters_and_multibyte": 1000, "lines_rewritten_expected": 10000},
             "thorough": {}},
        assumptions=[DOMAIN, ALIGN, "text whose classification would depend on parser quirks (e.g. 'at a.b(F:+1)') is only used with the identity monitor, which needs no classification",
                     "a lone CR is not a line terminator for the text API (str::lines), matching the statement's 'CRLF input'"],
    ),
    "C08": dict(
        level="exploration",
        stages=native(8000, 160000),
        rule="case = (generated mapping, typed trace of depth 0..4 over mapped and platform exception classes, mapped/unmapped frames, with/without files) through mapper and cache: depth, every throwable (remapped or kept), every frame list (model frames or the frame itself) checked against M; for canonical traces additionally print(typed(T)) == text(print(T)); distinct = distinct (mapping, trace, implementation) having >=1 unknown-class throwable and >=1 resolved frame",
        min={"quick": {"traces_with_unknown_throwable_and_resolved_frame": 1000, "canonical_pairs_compared": 10000, "levels_checked": 10000}, "thorough": {}},
        assumptions=[DOMAIN, ALIGN, "canonical = every cause level has an exception, messages non-empty single-line without surrounding whitespace, files present and colon-free"],
    ),
    "C09": dict(
        level="exploration",
        stages={"quick": [dict(variant="native", cases=8000), dict(variant="miri", cases=32, shards=8, timeout=2400)],
                "thorough": [dict(variant="native", cases=160000), dict(variant="miri", cases=256, shards=16, timeout=6000), dict(variant="valgrind", cases=1600, shards=16, timeout=3000)]},
        rule="case = cache file written from a generated mapping (0..400 classes, memberless classes, inline groups, long/non-ASCII/shared strings, odd and even record counts) or a corpus file; decoded by the independent decoder D and checked against the documented layout invariants (8 kinds, counted), against model M for content and order, and by ProguardCache::test(); distinct = distinct cache files with >= 2 classes and >= 1 by-params entry",
        min={"quick": {"files_with_ge2_classes_and_by_params": 1000, "inv_range_tiling": 10000, "inv_by_params_order": 1000, "inv_member_order": 1000,
                       "strings_with_multibyte_length_prefix": 100, "files_padding0_after_classes": 100, "files_padding4_after_classes": 100, "selftest_runs": 1000},
             "thorough": {}},
        assumptions=[DOMAIN, ALIGN, "the exact encoding of original start/end lines is only checked where the mapping printed them (the documentation does not fix the encoding of derived values)"],
    ),
    "C17": dict(
        level="exploration",
        stages=native(160000, 3200000),
        rule="case = stack trace AST in the statement's domain (class without spaces, message absent or non-empty single-line without surrounding whitespace incl. ': ', 'Caused by: ', frame-like text; frames with dot-free method, colon-free file, lines 0..2^64-1; depth 0..4; 0..20 frames; top-level exception present/absent) printed by the library, parsed back, compared and printed again; plus 4 single frames and throwables per case; distinct = distinct printed traces of depth >= 1 with a delimiter-bearing message",
        min={"quick": {"traces_depth_ge1_with_delimiter_message": 10000, "frames_roundtripped": 100000}, "thorough": {}},
        assumptions=["a top level with neither exception nor frames is not a stack trace (nothing is printed for it); cause levels always carry an exception (the printer has no representation for a cause without one)"],
    ),
    "C10": dict(
        level="exploration",
        stages={"quick": [dict(variant="native", cases=4000)],
                "thorough": [dict(variant="native", cases=80000), dict(variant="asan", cases=4000)]},
        rule="case = (mapping file as in C02, writer in {pinned 5.5.0 snapshot, current tree}, query): the file is parsed by both readers; each must accept or reject with WrongVersion; when both accept, every primitive query of the universe (remap_class, remap_method, remap_frame by line and by params, remap_throwable, deobfuscate_signature, text remap_stacktrace) is answered by both and compared; distinct = distinct (cache bytes, query) with a non-empty answer",
        min={"quick": {"pairs_writer_pinned_reader_current": 1000, "pairs_writer_current_reader_pinned": 1000, "files_both_readers_accept": 1000, "nonempty_by_line": 10000, "nonempty_by_params": 1000},
             "thorough": {}},
        assumptions=[DOMAIN, ALIGN, "the pinned release is the frozen copy of src/ at f3fcb84 under /verif/pinned (package renamed), linked into the same process",
                     "remap_stacktrace_typed is excluded: it is a pure composition of the primitives compared here, and its handling of unknown exception classes was repaired (D3) independently of the file format"],
    ),
    "C11": dict(
        level="fault_enumeration",
        stages={"quick": [dict(variant="native", cases=640), dict(variant="miri", cases=8, shards=8, timeout=2400)],
                "thorough": [dict(variant="native", cases=12800), dict(variant="miri", cases=64, shards=16, timeout=6000), dict(variant="asan", cases=1280)]},
        rule="for every generated cache file (24 B .. 8 KiB; zero-class, memberless, odd/even counts) EVERY strict prefix length 0..len-1 (what a crash during writing can leave) as a slice of the same 8-aligned buffer, and 30 single-field header edits (magic: byte-swapped/0/PRGD; version: 0/2/2^32-1; each of the four counts: 0, -1, +1, +1000, 2^31, 2^32-1); expected error kind from the independent layout walk (padding belongs to the section it precedes); an accepted prefix must answer every query like the full file; distinct = distinct (file, prefix length)",
        min={"quick": {"prefix_rejected_InvalidHeader": 100, "prefix_rejected_InvalidClasses": 100, "prefix_rejected_InvalidMembers": 100, "prefix_rejected_UnexpectedStringBytes": 100,
                       "edit_rejected_WrongEndianness": 100, "edit_rejected_WrongFormat": 100, "edit_rejected_WrongVersion": 100, "header_edits_string_bytes": 100},
             "thorough": {}},
        exhaustive_note="per file the fault space (all prefix lengths, all listed header edits) is enumerated completely; files themselves are sampled",
        assumptions=[ALIGN],
    ),
    "C12": dict(
        level="exploration",
        stages={"quick": [dict(variant="native", cases=3200), dict(variant="asan", cases=320), dict(variant="miri", cases=8, shards=8, timeout=2400)],
                "thorough": [dict(variant="native", cases=64000), dict(variant="asan", cases=6400), dict(variant="miri", cases=128, shards=16, timeout=6000), dict(variant="valgrind", cases=640, shards=16, timeout=3000)]},
        rule="case = (valid cache file, corruption, query): corruptions = one u32 field set to a boundary value (systematic sweep over the field map + random), multi-edits, record swaps/duplicates, bit flips, string length-prefix / UTF-8 damage, random bodies behind a valid header, random buffers; each buffer that parses is queried over classes x methods x lines {0,1,2,7,40,2^32-1,2^32,2^64-1} x by-params x throwable x text/typed traces x signatures under the panic/overflow trap with a pointer-provenance check on every returned string; distinct = distinct corrupted buffers whose answers differ from the valid file's (corruption reached a query)",
        min={"quick": {"corrupted_buffers_parsed": 10000, "corruptions_felt_by_a_query": 5000, "random_buffers_parsed": 10,
                       "field_hits_section1_idx3": 50, "field_hits_section1_idx5": 50, "field_hits_section2_idx2": 50, "field_hits_section3_idx8": 50},
             "thorough": {}},
        assumptions=[ALIGN, "ProguardCache::test() and the debug/display views unwrap by design and are not queries; they are not called on corrupted buffers"],
    ),
}
