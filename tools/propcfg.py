"""Per-property configuration of the runtime-monitoring checks: stages
(build variant, case count, shards), minimum observed events, level and the
rule that defines 'distinct non-trivial' cases. Case counts are logical
steps; wall-clock only enters as a generous watchdog."""

def native(q, t, **kw):
    return {"quick": [dict(variant="native", cases=q, **kw)], "thorough": [dict(variant="native", cases=t, **kw)]}

DOMAIN = "mapping files are in the representable domain (non-empty names, every printed number < 2^32-1)"
ALIGN = "cache bytes are placed in an 8-byte aligned buffer (what malloc/mmap give); the reader aligns by address, the writer by file offset"

PROPS = {
    "C01": dict(
        level="exploration",
        stages=native(4000, 120000),
        rule="case = (generated mapping AST, printing variant, class, method, line, file?) checked against reference model M for mapper, mapper+param-index and cache; distinct = distinct (variant text hash, query) ; non-trivial = model answer is non-empty",
        min={"quick": {"range_offset_len_ge_2": 100, "synthetic_class_file": 100, "foreign_class_no_file": 100,
                       "source_file_mid_block": 100, "duplicate_class_override": 100, "inverted_range_skipped": 100,
                       "single_line_collapse": 100, "call_site": 100, "identity": 100, "no_range_line0": 100},
             "thorough": {"range_offset_len_ge_2": 1000, "synthetic_class_file": 1000}},
        assumptions=[DOMAIN, ALIGN, "noise lines come from a fixed catalogue that C05 independently shows to be parse errors"],
    ),
    "C02": dict(
        level="exploration",
        stages={"quick": [dict(variant="native", cases=6000)],
                "thorough": [dict(variant="native", cases=120000), dict(variant="asan", cases=6000), dict(variant="miri", cases=48, shards=16, timeout=3000)]},
        rule="case = (mapping file from AST generator / token mutator / corpus window or whole corpus file, query) with the mapper's answer compared to the cache's (write -> parse -> query) for remap_class, remap_method, remap_frame by line and by params, remap_throwable, text and typed stack traces, signatures; plus mapper with vs without param index; distinct = distinct (file hash, query); non-trivial = the mapper's answer is non-empty / differs from the input",
        min={"quick": {"nonempty_by_params": 1000, "files_with_ge2_classes_having_methods": 100, "nonempty_by_line": 10000, "text_traces_rewritten": 100},
             "thorough": {"nonempty_by_params": 10000}},
        assumptions=[DOMAIN + "; files outside the domain (empty class/method/file names, numbers >= 2^32-1) are counted and skipped", ALIGN],
    ),
    "C03": dict(
        level="exploration",
        stages=native(3000, 60000),
        rule="case = (generated mapping AST with inline groups / repeated entries / overloads, printing variant, class, method, parameter string) checked against M.frames_by_params for mapper+param-index and cache; distinct = distinct (variant text hash, query); non-trivial = model answer non-empty",
        min={"quick": {"params_from_non_first_class": 1000, "inline_filtered": 100, "dedup_hit": 100},
             "thorough": {"params_from_non_first_class": 10000}},
        assumptions=[DOMAIN, ALIGN],
    ),
    "C04": dict(
        level="exploration",
        stages=native(1200, 20000),
        rule="case = (mapping with 50..400 adversarially similar class names, probe string) for remap_class/remap_throwable and (class, method) for remap_method, each compared with model M, plus consistency of remap_method with every frame of remap_frame over 9 lines; distinct = distinct (file hash, probe) ; non-trivial = the model answers Some",
        min={"quick": {"lookups_some": 1000, "lookups_none": 1000, "method_lookups_ambiguous_none": 100, "consistency_checks": 1000, "files_with_duplicate_class_names": 10},
             "thorough": {}},
        assumptions=[DOMAIN, ALIGN],
    ),
}
