#!/bin/bash
# run every check of a tier at a seed; summary lines only
tier=${1:-quick}; seed=${2:-0}; shift; shift
props=${@:-C01 C02 C03 C04 C05 C06 C07 C08 C09 C10 C11 C12 C13 C14 C15 C16 C17 C18 C19 C20}
cd "$(dirname "$0")/.."
for p in $props; do
  s=$(date +%s)
  VERIF_SEED=$seed ./check $p $tier > /tmp/runall_$p.log 2>&1; rc=$?
  e=$(date +%s)
  echo "$p $tier seed=$seed rc=$rc $((e-s))s $(grep -E '^\[C[0-9]+ ' /tmp/runall_$p.log | cut -c1-150)"
  grep -E "VIOLATION|INCONCLUSIVE|PROBLEM|signature" /tmp/runall_$p.log | head -5
done
