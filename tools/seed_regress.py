#!/usr/bin/env python3
"""Re-runs the registered quick check of every stored seed's own property against the seed
(scratch worktree, nothing touches /repo) and writes seeded/REGRESSION.json.
  tools/seed_regress.py [name ...]"""
import json, os, sys, glob, time
sys.dont_write_bytecode = True
sys.path.insert(0, os.path.dirname(os.path.abspath(__file__)))
import mutcheck as mc

def main():
    args = sys.argv[1:]
    out_path = os.path.join(mc.ROOT, "seeded", "REGRESSION.json")
    if args[:1] == ["--out"]:
        out_path, args = args[1], args[2:]
    names = args or sorted(os.path.basename(d) for d in glob.glob(os.path.join(mc.ROOT, "seeded", "C*")))
    out = {}
    mc.setup()
    try:
        for n in names:
            d = os.path.join(mc.ROOT, "seeded", n)
            meta = json.load(open(os.path.join(d, "meta.json")))
            prop = meta.get("breaks_property") or n[:3]
            mc.reset()
            r = mc.sh(["git", "apply", os.path.join(d, "patch.diff")], cwd=mc.REPO)
            if r.returncode:
                out[n] = {"status": "patch does not apply"}
                print(n, out[n], flush=True)
                continue
            c = mc.run_check(prop, "quick")
            out[n] = {"property": prop, "exit": c["exit"], "signatures": c["signatures"][:3], "wall_s": c["wall_s"]}
            print(n, prop, "exit", c["exit"], c["wall_s"], "s", flush=True)
            # written after every seed, so that an interrupted run leaves what it has
            json.dump({"at": time.strftime("%Y-%m-%d %H:%M:%S"), "complete": False, "seeds_total": len(names), "results": out},
                      open(out_path, "w"), indent=1)
    finally:
        mc.teardown()
    p = out_path
    json.dump({"at": time.strftime("%Y-%m-%d %H:%M:%S"), "complete": True, "seeds_total": len(names), "results": out}, open(p, "w"), indent=1)
    missed = [n for n, v in out.items() if v.get("exit") != 1]
    print("seeds:", len(out), "not caught:", missed)
    return 0

if __name__ == "__main__":
    sys.exit(main())
