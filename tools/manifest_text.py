"""Prose for MANIFEST.json, per property."""
NOTES = ("Technique family: runtime monitoring and sanitizers. Every check runs the real library code from /repo's working tree "
         "(path dependency, rebuilt by cargo on every invocation) under generated/hostile/fault-injected workloads while an oracle "
         "watches each execution. Verdicts are three-valued: exit 0 held on what was observed, exit 1 VIOLATION with replay file, "
         "exit 2 inconclusive (build failure, canary or self-test failure, watchdog, too few events). VERIF_SEED selects the workload seed.")
NOT_APPLICABLE = {}
TEXT = {
    "C01": dict(
        technique="runtime monitor: reference-model oracle over generated mapping ASTs (history + executable model), overflow-checked build",
        level_text="Exploration: every line-based frame query of the complete finite query universe of each generated mapping (all printing variants: LF/CRLF/CR/mixed, noise and blank lines, permuted class blocks) is answered by mapper, mapper+param-index and cache and compared with an independent executable model of the ProGuard retrace rule. The workload includes identity-mapped (kept) classes and members, methods with hundreds of simultaneously applicable entries, classes with dozens of members in mixed order, structured near-miss class names (x/a.b, La.b;, padded) and query lines beyond 2^32. Holds on the executions produced, nothing more; semantic-case counters show which rules were actually exercised.",
        level_note="Trusted: the ~300-line reference model M (transcribed from the statement), the AST printer, rustc overflow checks. Assumes the representable domain and 8-aligned cache buffers.",
    ),
    "C02": dict(
        technique="runtime monitor: differential oracle mapper vs cache (write->parse->query) over generated, token-mutated and corpus mappings; ASan and Miri stages for the unsafe Pod casts",
        level_text="Exploration: for every in-domain input file the complete per-class query universe (classes, methods, lines 0..66 + range boundaries + extremes, parameter strings, throwables, text/typed traces, descriptors) is sent to the mapper and to the cache produced from the same bytes and the answers are compared value for value; all public mapper constructors (new, new_with_param_mapping, From<&str>, From<(&str,bool)>) are compared with each other; the thorough tier repeats a reduced workload under AddressSanitizer and Miri because every cache answer is read through unsafe casts.",
        level_note="Trusted: the adapter layer that converts library results to neutral values, rustc overflow checks, ASan/Miri. The mapper is the reference as the statement says; who is right is decided by C01/C03/C04.",
    ),
    "C03": dict(
        technique="runtime monitor: reference-model oracle (frames_by_params) over generated mappings with inline groups and repeated entries",
        level_text="Exploration: every (class, method, parameter string) triple over the name universe of each generated mapping is answered by the mapper built with the parameter index and by the cache and compared with the model (inlined callees dropped, one frame per distinct (obfuscated, args, original), file order, line 0, no file). Counters require answers from classes that are not first in sort order.",
        level_note="Trusted: reference model M, AST printer. Representable domain, 8-aligned buffers.",
    ),
    "C04": dict(
        technique="runtime monitor: reference-model oracle for class/method lookup + internal-consistency monitor, adversarial name families for binary search",
        level_text="Exploration: files of 50..400 classes whose obfuscated names are prefixes, '$'/'.' variants, non-ASCII and duplicates of each other; every name, its near misses (extra char, NUL suffix, one char shorter, last char -1, case flip) and unknown strings are looked up through mapper and cache and compared with the model; remap_method is compared with the model's unambiguity rule and cross-checked against every frame remap_frame yields.",
        level_note="Trusted: reference model M. Representable domain, 8-aligned buffers.",
    ),
    "C05": dict(
        technique="runtime monitor: print->parse round trip against the record AST + independent reference line parser R; bounded-exhaustive token lines; corpus lines",
        level_text="Exploration with exhaustively enumerated sub-spaces: every optional-part combination of generated record lines (4 terminators, alone and embedded in files with noise), the five documented malformed derivations of each, all token lines up to length 5/6 over a 12-token alphabet and every corpus line are parsed by the real parser and compared with the AST or with R's classification; the record stream of every generated file is additionally obtained through nth/skip/step_by/count/last and a mid-way clone and compared with the next() sequence (well-formed -> exact parts, documented-malformed -> error carrying the line, otherwise totality only).",
        level_note="Trusted: the AST printer and the ~250-line reference parser R (cross-checked against the AST on every generated line; a disagreement aborts the run as inconclusive).",
    ),
    "C06": dict(
        technique="runtime monitor: invariant checks on every yielded item + metamorphic concatenation-law oracle; bounded-exhaustive short strings; panic trap",
        level_text="Exploration with exhaustively enumerated sub-spaces: random/hostile byte strings, all strings up to length 6/7 over a 9-symbol alphabet, and corpus split points are iterated by the real record iterator; the monitor checks termination, item count <= byte count, absence of line terminators in every yielded field, and records(A+nl+B) == records(A)++records(B) for nl in {LF, CRLF, CR}; mapper construction and cache writing run on the same bytes under the panic trap.",
        level_note="Trusted: the harness's item normalisation (error line without terminators). No grammar model is needed for this property.",
    ),
    "C07": dict(
        technique="runtime monitor: line-by-line reference model on structured traces with generator-known line kinds + identity monitor on arbitrary Unicode text",
        level_text="Exploration: for each generated mapping, structured text traces (cause chains, tab/space indentation, '... n more', Native Method / Unknown Source, messages with ': ' and frame-like text, blank and arbitrary-Unicode opaque lines, CRLF, missing final newline) are remapped through mapper and cache and compared with the expected concatenation computed from model M; arbitrary Unicode text is remapped with mappings that know none of its classes and must come back unchanged up to terminator normalisation.",
        level_note="Trusted: model M and the trace generator's line kinds (lines are only called opaque when no reading of the statement could make them a frame or cause).",
    ),
    "C08": dict(
        technique="runtime monitor: reference-model oracle for typed traces + differential typed-vs-text oracle on canonical traces",
        level_text="Exploration: typed traces with platform (never mapped) and mapped exception classes, resolved and unresolved frames and cause chains to depth 4 are remapped through mapper and cache; the monitor checks depth, that no throwable is dropped or invented, that each frame list is the model's expansion, and for canonical traces that printing the typed result equals the text API's output for the printed input.",
        level_note="Trusted: model M; the library's own Display is used on both sides of the typed-vs-text comparison.",
    ),
    "C09": dict(
        technique="runtime monitor: structural invariant checker (independent decoder written from the format documentation) at the quiescent point after write + content oracle from model M; Miri and valgrind memcheck on the writer's as_bytes() casts",
        level_text="Exploration: every generated or corpus mapping is serialised and the bytes are decoded by a decoder that shares no code with the library: magic/version/counts, strict class order, exact tiling of member and by-params ranges in class order, member and by-params ordering, 8-byte alignment with zero padding, declared string length, validity of every referenced string offset or the absent sentinel; decoded content and order are compared with the reference model; the library's own self-test must accept the file. Miri (quick and thorough) and valgrind (thorough) watch the writer's raw-byte views for uninitialised or misaligned reads.",
        level_note="Trusted: decoder D (~300 lines), model M, Miri/valgrind. Representable domain; 8-aligned buffers.",
    ),
    "C17": dict(
        technique="runtime monitor: print->parse->print round-trip oracle against the trace AST",
        level_text="Exploration: random traces from the statement's domain are printed by the library, parsed back and compared with the AST, then printed again and compared with the first print; same for single frames and throwables.",
        level_note="Trusted: the trace AST and its documented printed form (also compared with the library's Display).",
    ),
    "C10": dict(
        technique="runtime monitor: cross-version differential oracle (frozen 5.5.0 snapshot vs current tree linked in one process) over (writer, reader) histories",
        level_text="Exploration over histories: every generated, mutated and corpus mapping is serialised by the pinned writer and by the current writer; each file is parsed by the pinned reader and the current reader; a reader may only refuse with WrongVersion, and when both accept every primitive query is answered by both and compared. A layout, sentinel, sort-order or string-encoding change without a version bump shows as a disagreement or a non-version rejection.",
        level_note="Trusted: the frozen snapshot under /verif/pinned really is release 5.5.0 (git archive of f3fcb84, package renamed). Reader-vs-reader comparison per file, so repaired writers cannot alarm.",
    ),
    "C11": dict(
        technique="runtime monitor with fault enumeration: every truncation point and header edit of each file, expected error kind from an independent layout walk; Miri/ASan for reads past the slice",
        level_text="Fault enumeration: for each generated cache file every strict prefix (every crash point of a sequential write) and every listed single-field header edit is parsed by the real reader; the outcome must be the error kind of the first section that does not fit per the documented layout (with the declared/available lengths for the string section), the endianness/format/version error for magic/version edits, or - if a prefix were accepted - answers identical to the full file. Miri and ASan stages watch for a missing length check that would not panic.",
        level_note="Trusted: layout walk in decoder D. Per file the fault space is complete; the files are sampled.",
    ),
    "C12": dict(
        technique="runtime monitor: panic/overflow trap + pointer-provenance monitor over corrupter-generated buffers; ASan, Miri and valgrind memcheck stages",
        level_text="Exploration: valid files are corrupted field by field with boundary values (systematic sweep and random), by record swaps/duplication, bit flips, string-prefix and UTF-8 damage and random bodies; parse and the whole query set (incl. line 0 and 2^64-1) run under the overflow-checked panic trap; every returned string must be a slice of the buffer or of the query. A valid cache whose one method has 60 000 entries is queried on a 2 MiB-stack thread, also in an unoptimised (debug) build, and a worker that dies inside a monitored call (stack overflow, failed allocation) is reported as a violation. The same workload runs under AddressSanitizer and Miri (quick and thorough) and valgrind (thorough) to catch out-of-bounds or uninitialised reads that do not panic.",
        level_note="Trusted: rustc overflow checks and bounds checks, ASan/Miri/valgrind (each stage must first detect its canary).",
    ),
    "C13": dict(
        technique="runtime monitor: panic/overflow trap (overflow-checked, debug-assertion build) + Result checks over hostile generators and fuzzed bytes; ASan stage for the write->parse round trip",
        level_text="Exploration: hostile mapping bytes and hostile queries are pushed through every public entry point (mapper construction, cache write/parse, all query kinds with extreme line numbers, text and typed trace remapping, the try_parse functions, signature deobfuscation, metadata) while a process-wide panic hook records file:line of any panic inside the library and the build turns every arithmetic overflow into a panic; a mapping with one 60 000-entry method is exercised on a 2 MiB-stack thread in the optimised and in an unoptimised (debug) build, and a worker that dies inside a monitored call is reported as a violation.",
        level_note="Trusted: rustc overflow checks/debug assertions reach all library code because /repo is compiled as part of the harness build with that profile.",
    ),
    "C15": dict(
        technique="runtime monitor with fault enumeration: fault-injecting io::Write sinks whose event log (call index, offered, accepted/error) is checked offline against the canonical bytes",
        level_text="Fault enumeration: for each mapping every chunk size 1..16 and, for every write call the serialiser makes, a short write, a hard failure, an Interrupted error and an Ok(0) are injected exactly there; success must mean the sink holds exactly the canonical bytes, a hard failure must be reported, and after a reported failure the sink holds a prefix of the canonical bytes. Every schedule runs against a plain sink and against a sink whose write_vectored gathers across buffers, and large mappings (sections > 64 KiB) are part of every run. Per-site counters show that header, classes, members, by-params, strings and the three non-empty padding sites were all hit.",
        level_note="Trusted: the sink implementations (~100 lines). Per mapping the schedule space is complete; mappings are sampled.",
    ),
    "C14": dict(
        technique="runtime monitor: byte-equality oracle within a process, across threads and across separately started processes (digests compared by the driver) + independent implied-length walk; TSan on the threaded writers",
        level_text="Exploration over inputs, schedules and configurations: the same list of mappings is serialised repeatedly in one process, by 8 concurrent threads, and by 16/32 worker processes that each have their own hash seeds, address-space layout and allocation history; any difference in the bytes (e.g. from iterating a hash container) shows as an unequal digest; the output length must equal the length implied by the header per the documented layout.",
        level_note="Trusted: SHA-1 in the harness (FIPS vectors self-tested), decoder D's layout walk. RandomState keys differ per process by construction of std.",
    ),
    "C16": dict(
        technique="runtime monitor: descriptor-AST model + independent recursive-descent recogniser + differential mapper vs cache; bounded-exhaustive small descriptors",
        level_text="Exploration with an exhaustively enumerated sub-space: generated, exhaustively enumerated small, single-edit-corrupted and arbitrary Unicode strings are deobfuscated through mapper and cache; valid descriptors must yield exactly the model's Java types (keywords, [] per dimension, dotted names replaced by the mapping's original), the three documented invalid classes must yield nothing, and mapper and cache must agree on every string.",
        level_note="Trusted: descriptor model and recogniser (~200 lines), model M for class lookup.",
    ),
    "C18": dict(
        technique="runtime monitor: independent SHA-1/UUIDv5 oracle + offline checker over the (input, uuid) event log with Python hashlib + cross-process equality + raced first call (TSan in thorough)",
        level_text="Exploration: every input's UUID is recomputed by the harness's own SHA-1 based v5 implementation (namespace = v5(DNS, guardsquare.com)); logged entries are recomputed a second time offline by Python; corpus files are checked in LF and CRLF (must differ), one-bit variants must differ, copies must agree, the fixed set must agree across 16 processes, sub-mappings (section(), incl. cuts between CR and LF, before and after the parent's UUID was computed) and clones must be identified by their own bytes, files decorated with byte-order marks / identifier-shaped headers must not be normalised, and the lazily initialised namespace is raced from 16 threads at process start.",
        level_note="Trusted: two independent SHA-1 implementations (harness, Python hashlib) and the repository's recorded value for mapping-r8.txt.",
    ),
    "C19": dict(
        technique="runtime monitor: reference folds over the generator's AST item stream, boundary-focused workload (item 49/50/51, thousands of leading records)",
        level_text="Exploration: has_line_info, the five summary fields and is_valid are compared with folds computed from the AST for files built to stress scan limits (decisive records beyond item 50, after error lines, after 5000 unmapped methods, in an unterminated last line) and header handling (repeated, valueless, malformed, non-numeric); a third of the files glue a class line or sourceFile header to the next record without a terminator (records are not line-aligned), and every answer is asked twice, in another order and on a clone.",
        level_note="Trusted: the fold definitions in model.rs (transcribed from the statement), AST printer.",
    ),
    "C20": dict(
        technique="run-time auto-trait probes + concurrent-vs-sequential answer monitor on shared handles (history + sequential model) + ThreadSanitizer + Miri many-seeds race detection",
        level_text="Exploration over schedules: Send/Sync of 13 public types is observed at run time by probes that compile either way (so a lost auto trait is a reported violation, not a build failure); batches of mixed queries are issued from 2..16 threads against one shared mapper and one shared cache (shared through a force-Sync wrapper so the experiment runs even if the compiler would refuse) and compared with the answers obtained alone. The shared handles are built on helper threads and stay cold until the workers start; expected answers come from separate instances; a second mapping with the same obfuscated names but other originals is queried by the same workers; observed overlap (same-key queries with overlapping ticket intervals) and distinct interleaving signatures are measured; TSan and Miri with 4/16 schedule seeds look for data races by happens-before.",
        level_note="Trusted: TSan (built with -Zbuild-std so std is instrumented), Miri's data-race detector, each gated by a canary that must fire. Limits: an order-dependent but Sync-preserving bug is only caught if a produced schedule exposes it.",
    ),
}
