"""Prose for MANIFEST.json, per property."""
NOTES = ("Technique family: runtime monitoring and sanitizers. Every check runs the real library code from /repo's working tree "
         "(path dependency, rebuilt by cargo on every invocation) under generated/hostile/fault-injected workloads while an oracle "
         "watches each execution. Verdicts are three-valued: exit 0 held on what was observed, exit 1 VIOLATION with replay file, "
         "exit 2 inconclusive (build failure, canary or self-test failure, watchdog, too few events). VERIF_SEED selects the workload seed.")
NOT_APPLICABLE = {}
TEXT = {
    "C01": dict(
        technique="runtime monitor: reference-model oracle over generated mapping ASTs (history + executable model), overflow-checked build",
        level_text="Exploration: every line-based frame query of the complete finite query universe of each generated mapping (all printing variants: LF/CRLF/CR/mixed, noise and blank lines, permuted class blocks) is answered by mapper, mapper+param-index and cache and compared with an independent executable model of the ProGuard retrace rule. Holds on the executions produced, nothing more; semantic-case counters show which rules were actually exercised.",
        level_note="Trusted: the ~300-line reference model M (transcribed from the statement), the AST printer, rustc overflow checks. Assumes the representable domain and 8-aligned cache buffers.",
    ),
}
