#!/usr/bin/env python3
"""Systematic single-token mutation of /repo/src against the registered quick checks.

  tools/automut.py [--max N] [--seed S] [--files a.rs,b.rs]

For every sampled mutant (operator flips, boundary constants, swapped std helpers) in
non-test library code: apply to a scratch worktree (never /repo), discard it if it does
not compile or if the repository's own tests kill it, otherwise run the quick checks
mapped to the mutated file until one reports a VIOLATION. Survivors are listed with
their diff so that they can be triaged as equivalent mutants or monitor gaps.
Results: mutants/AUTOMUT.json."""
import json, os, random, re, sys, time
sys.dont_write_bytecode = True
sys.path.insert(0, os.path.dirname(os.path.abspath(__file__)))
import mutcheck as mc

FILE_CHECKS = {
    "src/mapping.rs": ["C05", "C06", "C19", "C18", "C01", "C13", "C03"],
    "src/mapper.rs": ["C01", "C03", "C04", "C07", "C08", "C02", "C13", "C16"],
    "src/cache/raw.rs": ["C02", "C09", "C14", "C15", "C11", "C10", "C03", "C13"],
    "src/cache/mod.rs": ["C02", "C04", "C03", "C07", "C08", "C10", "C12", "C11"],
    "src/java.rs": ["C16", "C02"],
    "src/stacktrace.rs": ["C17", "C07", "C08", "C13"],
}

OPS = [
    (r" >= ", " > "), (r" > ", " >= "), (r" <= ", " < "), (r" < ", " <= "),
    (r" == ", " != "), (r" != ", " == "), (r" && ", " || "), (r" \|\| ", " && "),
    (r" \+ ", " - "), (r" - ", " + "), (r" \+= 1", " += 2"), (r"\b0\b", "1"), (r"\b1\b", "0"), (r"\b8\b", "4"), (r"\b50\b", "49"),
    (r"u32::MAX", "(u32::MAX - 1)"), (r"\.is_some\(\)", ".is_none()"), (r"\.is_none\(\)", ".is_some()"),
    (r"if !", "if "), (r"continue;", "break;"), (r"\.rsplit_once\(", ".split_once("), (r"\.split_once\(", ".rsplit_once("),
    (r"\.rsplitn\(", ".splitn("), (r"\.splitn\(", ".rsplitn("), (r"\.strip_prefix\(", ".strip_suffix("),
    (r"\.last\(\)", ".next()"), (r"\.trim\(\)", ".trim_start()"), (r"saturating_add", "wrapping_add"),
    (r"checked_sub", "checked_add"), (r"checked_add", "checked_sub"), (r"\.ok\(\)\?", ".ok().or(None)?"),
    (r"\.map_or\(0, ", ".map_or(1, "), (r"\.map_or\(u32::MAX", ".map_or(0"), (r"\.unwrap_or_default\(\)", '.unwrap_or("x")'),
    (r"\.cmp\(", ".partial_cmp("), (r"Ordering::Greater", "Ordering::Less"), (r"\.insert\(key\)", ".insert(key) || true"),
    (r"write_all", "write"), (r"\.peek\(\)", ".next()"), (r"\.clear\(\);", ";"),
]

def candidates(files):
    out = []
    for f in files:
        lines = open(os.path.join("/repo", f)).read().split("\n")
        for i, l in enumerate(lines):
            if l.strip().startswith("#[cfg(test)]"):
                break
            st = l.strip()
            if st.startswith("//") or st.startswith("#[") or not st:
                continue
            code = l.split("//")[0]
            for pat, rep in OPS:
                for m in re.finditer(pat, code):
                    new = l[:m.start()] + rep + l[m.end():]
                    if new != l:
                        out.append((f, i, l, new, pat))
    return out

def main():
    a = sys.argv[1:]
    mx, seed, files, skip = 150, 1, list(FILE_CHECKS), 0
    i = 0
    while i < len(a):
        if a[i] == "--max": mx = int(a[i + 1]); i += 2
        elif a[i] == "--seed": seed = int(a[i + 1]); i += 2
        elif a[i] == "--skip": skip = int(a[i + 1]); i += 2
        elif a[i] == "--files": files = ["src/" + x if not x.startswith("src/") else x for x in a[i + 1].split(",")]; i += 2
        else: print(__doc__); return 2
    cands = candidates(files)
    random.Random(seed).shuffle(cands)
    # spread over files
    per = {}
    chosen = []
    for c in cands:
        if per.get(c[0], 0) < mx // len(files) + 1:
            chosen.append(c); per[c[0]] = per.get(c[0], 0) + 1
        if len(chosen) >= mx:
            break
    print("candidates:", len(cands), "sampled:", len(chosen), flush=True)
    mc.setup()
    out_path = os.path.join(mc.ROOT, "mutants", "AUTOMUT.json")
    res = json.load(open(out_path))[:skip] if skip and os.path.exists(out_path) else []
    try:
        for n, (f, ln, old, new, pat) in enumerate(chosen):
            if n < skip:
                continue
            mc.reset()
            p = os.path.join(mc.REPO, f)
            lines = open(p).read().split("\n")
            if lines[ln] != old:
                continue
            lines[ln] = new
            open(p, "w").write("\n".join(lines))
            rec = dict(file=f, line=ln + 1, old=old.strip(), new=new.strip(), op=pat)
            r = mc.sh(["cargo", "check", "--offline", "-q"], cwd=mc.REPO, timeout=600)
            if r.returncode != 0:
                rec["status"] = "does not compile"
            else:
                compiled, passed, failed, tail = mc.repo_tests()
                if not compiled:
                    rec["status"] = "does not compile"
                elif failed or passed < 53:
                    rec["status"] = "killed by the repository's tests"
                else:
                    rec["status"] = "SURVIVED"
                    rec["checks"] = {}
                    for pid in FILE_CHECKS[f]:
                        c = mc.run_check(pid, "quick")
                        rec["checks"][pid] = c["exit"]
                        if c["exit"] == 1:
                            rec["status"] = "caught by " + pid
                            rec["signature"] = (c["signatures"] or [""])[0][:160]
                            break
            res.append(rec)
            print(n, f, ln + 1, rec["status"], "|", rec["new"][:90], flush=True)
            json.dump(res, open(out_path, "w"), indent=1)
    finally:
        mc.teardown()
    surv = [r for r in res if r["status"] == "SURVIVED"]
    print("mutants:", len(res), "compiled+passed tests:", sum(1 for r in res if r["status"].startswith("caught") or r["status"] == "SURVIVED"),
          "caught:", sum(1 for r in res if r["status"].startswith("caught")), "survived:", len(surv))
    return 0

if __name__ == "__main__":
    sys.exit(main())
