#!/bin/bash
# tools/seedbatch.sh <worktree-prefix e.g. /tmp/wt5-> <suffix e.g. e> [ids...]: evaluate a round of sub-agent seeds
pre=$1; suf=$2; shift; shift
ids=${@:-01 02 03 04 05 06 07 08 09 10 11 12 13 14 15 16 17 18 19 20}
cd "$(dirname "$0")/.."
for i in $ids; do
  p=C$i
  [ -f ${pre}$p/_seed/patch.diff ] || { echo "$p: no seed yet"; continue; }
  python3 tools/seedcheck.py $p ${pre}$p/_seed --props $p --name ${p}${suf} 2>&1 | grep -E "quick ->|STORED|REJECTED" | cut -c1-170
done
