#!/usr/bin/env python3
"""Offline checker over the C18 event log: recomputes every logged
(input, uuid) pair with Python's hashlib-based uuid.uuid5 - a second,
unrelated implementation. Prints one JSON line {checked, mismatches, first}."""
import json, sys, uuid, glob

NS = uuid.uuid5(uuid.NAMESPACE_DNS, "guardsquare.com")

class _Name(str):
    pass

def v5(ns, data: bytes):
    import hashlib
    h = hashlib.sha1(ns.bytes + data).digest()
    return uuid.UUID(bytes=h[:16], version=5)

assert v5(uuid.NAMESPACE_DNS, b"python.org") == uuid.uuid5(uuid.NAMESPACE_DNS, "python.org")
checked = mismatches = 0
first = None
for path in glob.glob(sys.argv[1] + "/uuidlog_*.jsonl"):
    for line in open(path):
        line = line.strip()
        if not line:
            continue
        e = json.loads(line)
        data = bytes.fromhex(e["hex"])
        exp = str(v5(NS, data))
        checked += 1
        if exp != e["uuid"]:
            mismatches += 1
            first = first or {"hex": e["hex"][:200], "logged": e["uuid"], "python": exp}
print(json.dumps({"checked": checked, "mismatches": mismatches, "first": first}))
