#!/usr/bin/env python3
"""Confirms a sub-agent's seeded change and runs the checks against it.

  tools/seedcheck.py <PROP> <seed-dir> [--props C01,C02] [--tier quick] [--name NAME]

<seed-dir> holds patch.diff, demo.rs, meta.json. In a scratch worktree of /repo
(outside /repo and /verif): (1) the patch applies, the crate compiles and the
repository's 53 tests pass with it; (2) demo.rs (as tests/seed_demo.rs) fails
with the patch and passes without; (3) the registered checks for the listed
properties are run against the patched copy. On success the seed is stored under
/verif/seeded/<NAME>/ with meta.json extended by what was run and which checks
caught it. Nothing is applied to /repo."""
import json, os, shutil, sys, time
sys.dont_write_bytecode = True
sys.path.insert(0, os.path.dirname(os.path.abspath(__file__)))
import mutcheck as mc

RELEASE = False

def demo(feature_uuid):
    cmd = ["cargo", "test", "--offline", "--test", "seed_demo"] + (["--features", "uuid"] if feature_uuid else []) + (["--release"] if RELEASE else [])
    r = mc.sh(cmd, cwd=mc.REPO, timeout=1800)
    ok = "test result: ok" in r.stdout and "FAILED" not in r.stdout and "error" not in r.stdout.split("test result")[0][-300:]
    compiled = "could not compile" not in r.stdout
    return compiled, ("test result: ok" in r.stdout and "test result: FAILED" not in r.stdout), r.stdout[-1200:]

def main():
    a = sys.argv[1:]
    prop, sdir = a[0], a[1]
    props, tier, name = [prop], "quick", None
    i = 2
    while i < len(a):
        if a[i] == "--props": props = a[i + 1].split(","); i += 2
        elif a[i] == "--tier": tier = a[i + 1]; i += 2
        elif a[i] == "--name": name = a[i + 1]; i += 2
        else: print(__doc__); return 2
    name = name or prop
    meta = json.load(open(os.path.join(sdir, "meta.json")))
    patch = os.path.join(sdir, "patch.diff")
    uuid_feature = "uuid" in json.dumps(meta).lower() and prop == "C18"
    # a change that only shows without debug assertions / overflow checks: its demo is run with --release
    global RELEASE
    RELEASE = "--release" in (meta.get("needs", "") + " ".join(meta.get("ran", []))) and "--release" in meta.get("needs", "")
    mc.setup()
    ran = []
    try:
        # demo on the unchanged copy
        shutil.copy(os.path.join(sdir, "demo.rs"), os.path.join(mc.REPO, "tests", "seed_demo.rs"))
        c0, ok0, t0 = demo(uuid_feature)
        ran.append("unchanged tree: cargo test --offline --test seed_demo -> " + ("pass" if ok0 else "FAIL"))
        os.remove(os.path.join(mc.REPO, "tests", "seed_demo.rs"))
        r = mc.sh(["git", "apply", patch], cwd=mc.REPO)
        if r.returncode:
            print("REJECTED: patch does not apply:", r.stdout[-300:]); return 1
        compiled, passed, failed, tail = mc.repo_tests()
        ran.append("patched: cargo test --workspace --no-fail-fast --offline -> %d passed, %d failed" % (passed, failed))
        shutil.copy(os.path.join(sdir, "demo.rs"), os.path.join(mc.REPO, "tests", "seed_demo.rs"))
        c1, ok1, t1 = demo(uuid_feature)
        ran.append("patched: cargo test --offline --test seed_demo -> " + ("pass" if ok1 else "FAIL"))
        os.remove(os.path.join(mc.REPO, "tests", "seed_demo.rs"))
        print("\n".join(ran))
        if not (compiled and failed == 0 and passed >= 53):
            print("REJECTED: patched crate fails the repository's tests\n", tail[-600:]); return 1
        if not ok0:
            print("REJECTED: demo does not pass on the unchanged tree\n", t0[-800:]); return 1
        if ok1 or not c1:
            print("REJECTED: demo does not fail (or does not compile) with the patch\n", t1[-800:]); return 1
        checks = {}
        for pid in props:
            checks[pid] = mc.run_check(pid, tier)
            print(pid, tier, "-> exit", checks[pid]["exit"], checks[pid]["signatures"][:3], checks[pid]["wall_s"], "s", flush=True)
            ran.append("patched: ./check %s %s -> exit %d" % (pid, tier, checks[pid]["exit"]))
    finally:
        mc.teardown()
    caught = [p for p, c in checks.items() if c["exit"] == 1]
    dest = os.path.join(mc.ROOT, "seeded", name)
    os.makedirs(dest, exist_ok=True)
    if os.path.abspath(sdir) != os.path.abspath(dest):
        shutil.copy(patch, os.path.join(dest, "patch.diff"))
        shutil.copy(os.path.join(sdir, "demo.rs"), os.path.join(dest, "demo.rs"))
    if "checks_run" in meta:
        meta.setdefault("earlier_runs", []).append({"at": meta.get("confirmed_at"), "checks_run": meta.get("checks_run"), "caught_by": meta.get("caught_by")})
    meta.update({"breaks_property": prop, "confirmed_by_me": ran,
                 "checks_run": {p: {"tier": tier, "exit": c["exit"], "signatures": c["signatures"][:6], "wall_s": c["wall_s"]} for p, c in checks.items()},
                 "caught_by": caught, "confirmed_at": time.strftime("%Y-%m-%d %H:%M:%S")})
    json.dump(meta, open(os.path.join(dest, "meta.json"), "w"), indent=1, ensure_ascii=False)
    print("STORED", dest, "caught_by", caught or "NONE (missed)")
    return 0

if __name__ == "__main__":
    sys.exit(main())
