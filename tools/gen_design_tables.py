#!/usr/bin/env python3
"""Regenerates the seed and mutant tables of DESIGN.md (between the HTML comment markers)
from seeded/*/meta.json and mutants/RESULTS.json."""
import json, os, glob, re
ROOT = os.path.dirname(os.path.dirname(os.path.abspath(__file__)))
def short(s, n):
    s = re.sub(r'\s+', ' ', s or '').replace('|', '/')
    return s if len(s) <= n else s[:n - 1] + '…'
hist = {'C06': 'missed', 'C18': 'missed'}   # first-round misses recorded before earlier_runs existed
rows, missed_first, total = [], 0, 0
for d in sorted(glob.glob(os.path.join(ROOT, 'seeded', 'C*'))):
    m = json.load(open(os.path.join(d, 'meta.json')))
    name = os.path.basename(d)
    first = None
    if m.get('earlier_runs'):
        f = m['earlier_runs'][0].get('caught_by')
        own = m.get('breaks_property')
        first = ('caught by ' + ','.join(f)) if f else 'missed'
    if name in hist:
        first = hist[name]
    total += 1
    if first == 'missed':
        missed_first += 1
    now = ','.join(m.get('caught_by') or []) or 'MISSED'
    rows.append("| %s | %s | %s | %s | %s |" % (name, short(m.get('summary'), 120), short(m.get('needs'), 110), first or 'caught', now))
seed_table = "| seed | change | needs | first run | caught now by |\n|---|---|---|---|---|\n" + "\n".join(rows) + "\n"
mr = json.load(open(os.path.join(ROOT, 'mutants', 'RESULTS.json')))
out = []
for r in mr:
    st = r['status']
    if st.startswith('discarded'):
        st = "discarded (fails the repository's own tests)"
    out.append("| %s | %s | %s | %s |" % (r['id'], short(r['desc'], 90), ','.join(r['props']), st))
mut_table = "| mutant | change | targeted | result |\n|---|---|---|---|\n" + "\n".join(out) + "\n"
p = os.path.join(ROOT, 'DESIGN.md')
s = open(p).read()
def put(s, tag, body):
    a, b = '<!-- %s-BEGIN -->' % tag, '<!-- %s-END -->' % tag
    i, j = s.index(a) + len(a), s.index(b)
    return s[:i] + "\n" + body + s[j:]
s = put(s, 'SEED-TABLE', seed_table)
s = put(s, 'MUT-TABLE', mut_table)
open(p, 'w').write(s)
print("seeds:", total, "missed at first run:", missed_first)
