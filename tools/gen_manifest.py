#!/usr/bin/env python3
"""Generates MANIFEST.json from tools/propcfg.py + tools/manifest_text.py."""
import json, os, sys
sys.dont_write_bytecode = True
ROOT = os.path.dirname(os.path.dirname(os.path.abspath(__file__)))
sys.path.insert(0, os.path.join(ROOT, "tools"))
import propcfg, manifest_text as mt

checks = []
for pid in sorted(propcfg.PROPS):
    cfg = propcfg.PROPS[pid]
    t = mt.TEXT[pid]
    checks.append({
        "property_id": pid,
        "quick_cmd": "./check %s quick" % pid,
        "thorough_cmd": "./check %s thorough" % pid,
        "evidence_file": "/verif/evidence/%s.json" % pid,
        "replay_cmd_template": "./check replay {path}",
        "engine": "pgverif",
        "level_claimed": {"category": cfg["level"],
                          "text": t["level_text"] + (" The same oracle also runs on a `shipping` build of the library (opt-level 3, overflow checks and debug assertions off: what users of the crate run). The workload generators were extended through fifteen rounds of independently seeded breaking changes (DESIGN.md §13.5 lists per round what was added and why); `tools/propcfg.py` holds the current rule text and the minimum-event thresholds that make a run inconclusive when it did not reach the situations it claims." if any(st["variant"] == "shipping" for st in cfg["stages"]["quick"]) else " The workload generators were extended through fifteen rounds of independently seeded breaking changes (DESIGN.md §13.5); `tools/propcfg.py` holds the current rule text and minimum-event thresholds."),
                          "design_ref": "DESIGN.md §4 and §13 " + pid},
        "level_note": t["level_note"],
        "technique": t["technique"],
    })
all_ids = [json.loads(l)["id"] for l in open(os.path.join(ROOT, "properties.jsonl"))]
na = [{"property_id": p, "reason": mt.NOT_APPLICABLE.get(p, "check not built yet (implementation in progress); no claim is made for this property at this commit")}
      for p in all_ids if p not in propcfg.PROPS]
m = {
    "version": 1,
    "setup_cmd": "./check setup",
    "hooks": {
        "guard": "proguard_verif",
        "enable": "none needed: no hook exists in /repo; instrumentation is supplied by the compiler (overflow-checks, debug-assertions, -Zsanitizer=address|thread, Miri, valgrind) when ./check builds /repo as a path dependency of /verif/harness",
        "baseline_off_cmd": "cd /repo && cargo test --workspace --no-fail-fast --offline",
        "source_commits": [],
        "add_only": True,
    },
    "engines": [{
        "name": "pgverif",
        "path": "/verif/harness",
        "serves_properties": sorted(propcfg.PROPS),
        "kind_free_text": "Rust workers (generators, reference models, differential/metamorphic monitors, fault-injecting sinks, independent cache decoder, panic/overflow trap) linked against /repo's working tree and a frozen 5.5.0 snapshot; built natively with overflow checks and under ASan/TSan/Miri/valgrind; driven by ./check (python3) which shards, aggregates measured coverage, applies known_findings.json and writes evidence",
    }],
    "checks": checks,
    "notes": mt.NOTES,
    "not_applicable": na,
}
json.dump(m, open(os.path.join(ROOT, "MANIFEST.json"), "w"), indent=1, ensure_ascii=False)
print("wrote MANIFEST.json with", len(checks), "checks;", len(na), "not claimed")
