#!/usr/bin/env python3
"""Validates the monitors against mutants WITHOUT touching /repo or /verif/evidence.

  tools/mutcheck.py [--only id1,id2] [--tier quick] [--patch FILE --props C01,C02 --name NAME]

Creates /tmp/mutrun/{repo,harness,state}: a scratch git worktree of /repo, a copy
of the harness whose path dependency points at the scratch repo, and a private
state directory (PGV_HARNESS / PGV_STATE). For every mutant: apply, run the
repository's own tests (a mutant must compile and pass them to count), run the
targeted checks, record exit codes and violation signatures, restore.
Results: mutants/RESULTS.json (+ a markdown table on stdout). Everything under
/tmp/mutrun is removed at the end (--keep to keep it)."""
import json, os, re, shutil, subprocess, sys, time
sys.dont_write_bytecode = True
ROOT = os.path.dirname(os.path.dirname(os.path.abspath(__file__)))
sys.path.insert(0, os.path.join(ROOT, "mutants"))
BASE = os.environ.get("MUTRUN_DIR", "/tmp/mutrun")
REPO = os.path.join(BASE, "repo")
HARN = os.path.join(BASE, "harness")
STATE = os.path.join(BASE, "state")
ENV = dict(os.environ, CARGO_NET_OFFLINE="true", PGV_HARNESS=HARN, PGV_STATE=STATE)

def sh(cmd, cwd=None, timeout=3600, env=None):
    # own process group, so that a hanging grandchild (a test binary spinning in a mutant)
    # dies with the timeout; a timeout is reported as return code 124
    p = subprocess.Popen(cmd, cwd=cwd, env=env or ENV, stdout=subprocess.PIPE, stderr=subprocess.STDOUT, text=True, start_new_session=True)
    try:
        out, _ = p.communicate(timeout=timeout)
        return subprocess.CompletedProcess(cmd, p.returncode, out, None)
    except subprocess.TimeoutExpired:
        try:
            os.killpg(p.pid, 9)
        except ProcessLookupError:
            pass
        out, _ = p.communicate()
        return subprocess.CompletedProcess(cmd, 124, (out or "") + "\nTIMEOUT", None)

def setup():
    if os.path.exists(BASE):
        teardown()
    os.makedirs(BASE)
    r = sh(["git", "-C", "/repo", "worktree", "add", "--detach", REPO, "HEAD"])
    assert r.returncode == 0, r.stdout
    shutil.copytree(os.path.join(ROOT, "harness"), HARN, ignore=shutil.ignore_patterns("target*"))
    p = os.path.join(HARN, "pgverif", "Cargo.toml")
    s = open(p).read()
    s = s.replace('path = "/repo"', 'path = "%s"' % REPO)
    s = s.replace('path = "../../pinned/proguard-5.5.0"', 'path = "%s"' % os.path.join(ROOT, "pinned", "proguard-5.5.0"))
    open(p, "w").write(s)
    os.makedirs(STATE)
    shutil.copy(os.path.join(ROOT, "known_findings.json"), os.path.join(STATE, "known_findings.json"))

def teardown():
    sh(["git", "-C", "/repo", "worktree", "remove", "--force", REPO])
    shutil.rmtree(BASE, ignore_errors=True)
    sh(["git", "-C", "/repo", "worktree", "prune"])

def reset():
    sh(["git", "checkout", "--", "."], cwd=REPO)
    sh(["git", "clean", "-fdq", "--", "src", "tests"], cwd=REPO)

def apply_text(edits):
    for f, old, new in edits:
        p = os.path.join(REPO, f)
        s = open(p).read()
        if old not in s:
            return "pattern not found in %s" % f
        open(p, "w").write(s.replace(old, new, 1))
    return None

def repo_tests():
    r = sh(["cargo", "test", "--workspace", "--no-fail-fast", "--offline"], cwd=REPO, timeout=600)
    if r.returncode == 124:
        return True, 0, 1, "the repository's tests hang"
    passed = sum(int(x) for x in re.findall(r"test result: \w+\. (\d+) passed", r.stdout))
    failed = sum(int(x) for x in re.findall(r"test result: \w+\. \d+ passed; (\d+) failed", r.stdout))
    compiled = "error: could not compile" not in r.stdout and "error[" not in r.stdout
    return compiled, passed, failed, r.stdout[-1500:]

def run_check(pid, tier):
    t = time.time()
    r = sh([os.path.join(ROOT, "check"), pid, tier], cwd=ROOT, timeout=7200)
    sigs = re.findall(r"^  signature: (.*?)(?: \(\d+ reported\))?$", r.stdout, re.M)
    return dict(exit=r.returncode, signatures=sigs, wall_s=round(time.time() - t, 1),
                tail=r.stdout[-600:] if r.returncode not in (0, 1) else "")

def main():
    a = sys.argv[1:]
    tier = "quick"
    only = None
    keep = False
    patch = None
    props = None
    name = None
    i = 0
    while i < len(a):
        if a[i] == "--only": only = set(a[i + 1].split(",")); i += 2
        elif a[i] == "--tier": tier = a[i + 1]; i += 2
        elif a[i] == "--keep": keep = True; i += 1
        elif a[i] == "--patch": patch = a[i + 1]; i += 2
        elif a[i] == "--props": props = a[i + 1].split(","); i += 2
        elif a[i] == "--name": name = a[i + 1]; i += 2
        else: print(__doc__); return 2
    setup()
    results = []
    try:
        if patch:
            jobs = [dict(id=name or os.path.basename(patch), props=props, patch=patch, desc="external patch", negative=False)]
        else:
            import mutants
            jobs = [m for m in mutants.M if not only or m["id"] in only]
        # baseline: the unchanged scratch copy must be silent for the properties involved (once)
        for m in jobs:
            reset()
            if m.get("patch"):
                r = sh(["git", "apply", m["patch"]], cwd=REPO)
                err = r.stdout if r.returncode else None
            else:
                err = apply_text([(m["file"], m["old"], m["new"])] + list(m.get("extra", [])))
            rec = dict(id=m["id"], desc=m["desc"], props=m["props"], negative=m.get("negative", False))
            if err:
                rec["status"] = "not-applicable: " + err.strip()[:200]
                results.append(rec); print(rec["id"], rec["status"], flush=True); continue
            compiled, passed, failed, tail = repo_tests()
            rec.update(compiled=compiled, tests_passed=passed, tests_failed=failed)
            if not compiled or failed or passed < 53:
                rec["status"] = "discarded: does not compile or fails the repository's tests"
                rec["tail"] = tail[-400:]
                results.append(rec); print(rec["id"], rec["status"], passed, failed, flush=True); continue
            rec["checks"] = {}
            for pid in m["props"]:
                rec["checks"][pid] = run_check(pid, tier)
            caught = [p for p, c in rec["checks"].items() if c["exit"] == 1]
            rec["caught_by"] = caught
            if m.get("negative"):
                rec["status"] = "ok: negative control silent" if not caught else "FALSE ALARM on negative control"
            else:
                rec["status"] = ("caught by " + ",".join(caught)) if caught else "MISSED"
            results.append(rec)
            print(rec["id"], "->", rec["status"], {p: (c["exit"], c["wall_s"]) for p, c in rec["checks"].items()}, flush=True)
    finally:
        if not keep:
            teardown()
    out = os.path.join(ROOT, "mutants", "RESULTS.json" if not patch else "RESULTS_external_%s.json" % (name or "patch"))
    if patch or only:
        out = os.path.join("/tmp", os.path.basename(out))
    json.dump(results, open(out, "w"), indent=1)
    print("results written to", out)
    return 0

if __name__ == "__main__":
    sys.exit(main())
